package main

import "fmt"

// State maps heap names to SMT terms; lookups are lazy so that heaps that are first
// touched deep inside a function still get the right version at loop heads and merges.
type State struct {
	f      *FnVC
	m      map[string]string
	kind   int // 0 root, 1 child, 2 merge, 3 loophavoc
	parent *State
	preds  []*State // merge
	edges  []string // merge: edge condition per pred
	id     string   // unique suffix for merge/havoc constants
	loop   *loopInfo
	entry  *State          // loophavoc: merged entry state
	used   map[string]bool // stParam: heaps referenced
}

const (
	stRoot = iota
	stChild
	stMerge
	stLoop
	stParam
	stHavoc
)

func (s *State) child() *State {
	return &State{f: s.f, m: map[string]string{}, kind: stChild, parent: s}
}

func (s *State) set(h, term string) { s.m[h] = term }

func (s *State) get(h string) string {
	if v, ok := s.m[h]; ok {
		return v
	}
	var v string
	switch s.kind {
	case stRoot:
		v = s.f.declHeapConst(h, "0")
		if h != "$nextref" {
			s.f.heapNextref[v] = s.f.declHeapConst("$nextref", "0")
			if ty, ok := s.f.heapGoType[h]; ok {
				// entry value of a package-level variable: well-typed and allocated before entry
				tv := s.f.tv(v, ty)
				s.f.typeFacts(tv, true)
				s.f.allocatedFactAt(tv, s.f.declHeapConst("$nextref", "0"))
			}
		}
	case stChild:
		v = s.parent.get(h)
	case stMerge:
		var vs []string
		same := true
		for _, p := range s.preds {
			t := p.get(h)
			if len(vs) > 0 && t != vs[0] {
				same = false
			}
			vs = append(vs, t)
		}
		if len(vs) == 0 {
			v = s.f.declHeapConst(h, "unreach"+s.id)
		} else if same {
			v = vs[0]
		} else {
			v = s.f.declHeapConst(h, s.id)
			for i, t := range vs {
				s.f.fact(sImp(s.edges[i], sEq(v, t)))
			}
		}
	case stLoop:
		v = s.f.declHeapConst(h, s.id)
		s.loop.havocked = append(s.loop.havocked, havocRec{heap: h, term: v, entry: s.entry})
	case stHavoc:
		v = s.f.declHeapConst(h, s.id)
	case stParam:
		if _, ok := s.f.heapSort[h]; !ok {
			panic("unknown heap " + h)
		}
		s.used[h] = true
		v = s.f.sym(h + "@p")
	default:
		panic(fmt.Sprint("bad state kind ", s.kind))
	}
	s.m[h] = v
	if h != "$nextref" && (s.kind == stRoot || s.kind == stLoop || s.kind == stHavoc || (s.kind == stMerge && len(v) > 0 && v[len(v)-1] == '|' && !s.allSame(h))) {
		s.f.closednessAxiom(h, v, s.get("$nextref"))
	}
	return v
}

func (s *State) allSame(h string) bool {
	var first string
	for i, p := range s.preds {
		t := p.get(h)
		if i == 0 {
			first = t
		} else if t != first {
			return false
		}
	}
	return true
}

// projGet: the backing array of slice value sl in element heap h. Inside the definition of a recursive spec
// function (stParam) a slice that is a formal parameter gets its backing array passed as a separate argument,
// so that the function's value does not depend on unrelated parts of the heap.
func (s *State) projGet(h, sl string) string {
	if s.kind == stParam && len(sl) > 2 && sl[:2] == "a_" && !containsAny(sl, " ()") {
		if _, ok := s.f.heapSort[h]; !ok {
			panic("unknown heap " + h)
		}
		s.used[h+"|"+sl] = true
		return s.f.sym(h + "@p@" + sl)
	}
	return sSel(s.get(h), "(s_ref "+sl+")")
}

func containsAny(s, chars string) bool {
	for _, c := range s {
		for _, d := range chars {
			if c == d {
				return true
			}
		}
	}
	return false
}
