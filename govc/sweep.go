package main

import (
	"fmt"
	"os"
	"path/filepath"
	"sort"
	"strings"
	"sync"

	"golang.org/x/tools/go/ssa"
)

// cmdSweep: zero-annotation no-panic sweep of one package. Every function of the package that has no contract
// gets the implicit contract { assigns *; ensures nopanic } with NO precondition; the index / slice / division /
// nil-map / make / type-assertion obligations that are not discharged are listed. This is a triage aid for finding
// candidates (most survivors need a precondition, a few are genuine defects); it is not a registered check and its
// output is never counted as evidence.
func cmdSweep(args []string) int {
	if len(args) < 1 {
		fmt.Println("usage: govc sweep <pkgdir> [repo]")
		return 2
	}
	repo := "/repo"
	verif := "/verif"
	dir, _ := filepath.Abs(args[0])
	c := &checkCtx{prop: "SWEEP", tier: "quick", repo: repo, verif: verif, noEvidence: true}
	c.timeoutS = 5
	scratch, _ := os.MkdirTemp("", "govc-sweep-")
	defer os.RemoveAll(scratch)
	c.scratch = scratch
	dirs := contractDirs(repo)
	dirPkg := map[string]string{}
	for d := range dirs {
		rel, _ := filepath.Rel(repo, d)
		pp := modulePath
		if rel != "." {
			pp = modulePath + "/" + filepath.ToSlash(rel)
		}
		dirPkg[d] = pp
	}
	g, err := loadGenAll(repo, modulePath, filepath.Join(verif, "externs"), []string{dir}, dirs, dirPkg)
	if err != nil {
		fmt.Println("ENGINE-ERROR load:", err)
		return 2
	}
	c.g = g
	g.curProp = "SWEEP"
	rel, _ := filepath.Rel(repo, dir)
	pkgPath := modulePath
	if rel != "." {
		pkgPath = modulePath + "/" + filepath.ToSlash(rel)
	}
	p := g.ssaPkgs[pkgPath]
	if p == nil {
		fmt.Println("ENGINE-ERROR package not loaded:", pkgPath)
		return 2
	}
	var fns []*ssa.Function
	var visit func(fn *ssa.Function)
	seen := map[*ssa.Function]bool{}
	visit = func(fn *ssa.Function) {
		if fn == nil || seen[fn] || fn.Blocks == nil || fn.Synthetic != "" {
			return
		}
		seen[fn] = true
		fns = append(fns, fn)
		for _, a := range fn.AnonFuncs {
			visit(a)
		}
	}
	for _, m := range p.Members {
		switch x := m.(type) {
		case *ssa.Function:
			visit(x)
		case *ssa.Type:
			ms := g.prog.MethodSets.MethodSet(x.Type())
			for i := 0; i < ms.Len(); i++ {
				visit(g.prog.MethodValue(ms.At(i)))
			}
			pms := g.prog.MethodSets.MethodSet(typesNewPointer(x.Type()))
			for i := 0; i < pms.Len(); i++ {
				visit(g.prog.MethodValue(pms.At(i)))
			}
		}
	}
	sort.Slice(fns, func(i, j int) bool { return fns[i].RelString(p.Pkg) < fns[j].RelString(p.Pkg) })
	for _, fn := range fns {
		if fn.Pkg != p {
			continue
		}
		key := fn.RelString(p.Pkg)
		if _, has := g.specs.Contracts[pkgPath+"."+key]; has {
			continue
		}
		if strings.HasPrefix(fn.Name(), "init") {
			continue
		}
		ct := &Contract{Key: key, Pkg: pkgPath, Loops: map[int]*LoopSpec{}, HasAssign: true, AssignsAll: true, NoPanic: true}
		f := g.newFnVC(fn, ct, strings.TrimPrefix(pkgPath, modulePath+"/")+"."+key)
		func() {
			defer func() {
				if r := recover(); r != nil {
					f.genErr = fmt.Sprint(r)
				}
			}()
			f.run()
		}()
		if f.genErr != "" {
			fmt.Printf("  (skipped %s: %s)\n", key, truncate(f.genErr, 100))
			continue
		}
		// keep only the interesting panic obligations
		var keep []*Obl
		for _, o := range f.obls {
			if o.Cover {
				continue
			}
			switch o.Kind {
			case "panic.index", "panic.slice", "panic.div", "panic.nilmap", "panic.makeslice", "panic.typeassert":
				keep = append(keep, o)
			default:
				o.Status = "skipped" // still assumed by later obligations
			}
		}
		c.fns = append(c.fns, f)
	}
	sem := make(chan struct{}, 14)
	var wg sync.WaitGroup
	for _, f := range c.fns {
		wg.Add(1)
		go func(f *FnVC) {
			defer wg.Done()
			discharge(f, dischargeOpts{dir: scratch, timeoutS: c.timeoutS, seed: 0, par: 14, sem: sem}, &c.stats)
		}(f)
	}
	wg.Wait()
	n := 0
	for _, f := range c.fns {
		for _, o := range f.obls {
			if o.Cover || o.Status == "skipped" || o.Status == "proved" {
				continue
			}
			n++
			fmt.Printf("%-8s %s :: %s %s  [%s]\n", o.Status, f.key, o.Kind, o.Text, o.Pos)
		}
	}
	fmt.Printf("sweep %s: %d functions without contract, %d undischarged index/slice/div/nil-map/make/type-assertion obligations\n", pkgPath, len(c.fns), n)
	return 0
}
