package main

import (
	"encoding/json"
	"go/token"
	"go/types"

	"flag"
	"fmt"
	"golang.org/x/tools/go/ssa"
	"os"
	"path/filepath"
	"sort"
	"strconv"
	"strings"
	"sync"
	"time"
)

const modulePath = "github.com/fabiolb/fabio"

type KnownFinding struct {
	Property   string `json:"property"`
	Status     string `json:"status"` // open | fixed
	Obligation string `json:"obligation"`
	Function   string `json:"function"`
	Exclude    string `json:"exclude,omitempty"` // predicate (contract language, entry state) describing the known failing inputs
	What       string `json:"what"`
	Input      string `json:"input,omitempty"`
	Replay     string `json:"replay,omitempty"`
	Commit     string `json:"commit,omitempty"`
}

type Evidence struct {
	PropertyID  string                 `json:"property_id"`
	Tier        string                 `json:"tier"`
	Seed        int                    `json:"seed"`
	Level       string                 `json:"level"`
	Coverage    map[string]interface{} `json:"coverage"`
	Assumptions []string               `json:"assumptions"`
	WallS       float64                `json:"wall_s"`
	Violations  int                    `json:"violations"`
}

func main() {
	if len(os.Args) < 2 {
		fmt.Fprintln(os.Stderr, "usage: govc check <prop> [-tier quick|thorough] | govc dump <pkgdir> <func>")
		os.Exit(2)
	}
	switch os.Args[1] {
	case "check":
		os.Exit(cmdCheck(os.Args[2:]))
	case "ssa":
		os.Exit(cmdSSA(os.Args[2:]))
	case "sweep":
		os.Exit(cmdSweep(os.Args[2:]))
	case "replay":
		os.Exit(cmdReplay(os.Args[2:]))
	default:
		fmt.Fprintln(os.Stderr, "unknown command")
		os.Exit(2)
	}
}

func envInt(name string, def int) int {
	if v := os.Getenv(name); v != "" {
		if n, err := strconv.Atoi(v); err == nil {
			return n
		}
	}
	return def
}

type checkCtx struct {
	prop       string
	tier       string
	seed       int
	repo       string
	verif      string
	scratch    string
	g          *Gen
	fns        []*FnVC
	stats      runStats
	findings   []KnownFinding
	lines      []string
	viol       int
	timeoutS   int
	keep       bool
	noEvidence bool
	replayDir  string
}

func cmdCheck(args []string) int {
	fs := flag.NewFlagSet("check", flag.ExitOnError)
	tier := fs.String("tier", "", "quick|thorough")
	repo := fs.String("repo", "/repo", "repository root")
	verif := fs.String("verif", "/verif", "verif root")
	only := fs.String("fn", "", "only this function key (debug)")
	keep := fs.Bool("keep", false, "keep scratch dir")
	verbose := fs.Bool("v", false, "verbose")
	noEv := fs.Bool("noevidence", false, "do not write the evidence file (self-test runs)")
	var prop string
	if len(args) > 0 && !strings.HasPrefix(args[0], "-") {
		prop = args[0]
		args = args[1:]
	}
	fs.Parse(args)
	if prop == "" && fs.NArg() > 0 {
		prop = fs.Arg(0)
	}
	if *tier == "" {
		*tier = os.Getenv("VERIF_TIER")
	}
	if *tier == "" {
		*tier = "quick"
	}
	t0 := time.Now()
	c := &checkCtx{prop: prop, tier: *tier, seed: envInt("VERIF_SEED", 0), repo: *repo, verif: *verif, keep: *keep, noEvidence: *noEv}
	c.replayDir = filepath.Join(*verif, "replays")
	if d := os.Getenv("GOVC_REPLAYS"); d != "" {
		c.replayDir = d
	}
	c.timeoutS = 10
	if c.tier == "thorough" {
		c.timeoutS = 60
	}
	if old, _ := filepath.Glob(filepath.Join(c.replayDir, prop+"_*.json")); len(old) > 0 {
		for _, o := range old {
			os.Remove(o)
		}
	}
	scratch, err := os.MkdirTemp("", "govc-"+prop+"-")
	if err != nil {
		fmt.Println("ENGINE-ERROR", err)
		return 2
	}
	c.scratch = scratch
	if !*keep {
		defer os.RemoveAll(scratch)
	} else {
		fmt.Println("scratch:", scratch)
	}
	// known findings
	if b, err := os.ReadFile(filepath.Join(c.verif, "known_findings.json")); err == nil {
		var all []KnownFinding
		if err := json.Unmarshal(b, &all); err != nil {
			fmt.Println("ENGINE-ERROR known_findings.json:", err)
			return 2
		}
		for _, k := range all {
			if k.Property == prop {
				c.findings = append(c.findings, k)
			}
		}
	}
	// 1. which contract files mention this property
	dirs := contractDirs(c.repo)
	pre := newSpecs()
	dirPkg := map[string]string{}
	for d, file := range dirs {
		rel, _ := filepath.Rel(c.repo, d)
		pp := modulePath
		if rel != "." {
			pp = modulePath + "/" + filepath.ToSlash(rel)
		}
		dirPkg[d] = pp
		if err := pre.load(file, true, pp); err != nil {
			fmt.Println("ENGINE-ERROR contract file:", err)
			return 2
		}
	}
	if err := pre.resolveConforms(); err != nil {
		fmt.Println("ENGINE-ERROR", err)
		return 2
	}
	needDirs := map[string]bool{}
	var keys []string
	for k, ct := range pre.Contracts {
		if ct.Extern || ct.Trusted {
			continue
		}
		has := false
		for _, p := range ct.Props {
			if p == prop {
				has = true
			}
		}
		if !has {
			continue
		}
		if *only != "" && ct.Key != *only {
			continue
		}
		keys = append(keys, k)
		for d, pp := range dirPkg {
			if pp == ct.Pkg {
				needDirs[d] = true
			}
		}
	}
	sort.Strings(keys)
	if len(keys) == 0 {
		fmt.Printf("ENGINE-ERROR no functions under contract for property %s\n", prop)
		return 2
	}
	var dl []string
	for d := range needDirs {
		dl = append(dl, d)
	}
	g, err := loadGenAll(c.repo, modulePath, filepath.Join(c.verif, "externs"), dl, dirs, dirPkg)
	if err != nil {
		// the tree does not build with the contracts: report as engine error (exit 2), not as a violation
		fmt.Println("ENGINE-ERROR load:", err)
		return 2
	}
	c.g = g
	g.curProp = prop
	// 2. generate
	for _, sc := range pre.Shared {
		for _, p := range sc.Props {
			if p == prop {
				for d, pp := range dirPkg {
					if pp == sc.Pkg {
						needDirs[d] = true
					}
				}
			}
		}
	}
	_ = needDirs
	for _, k := range keys {
		ct := g.specs.Contracts[k]
		fn := g.findFunc(ct.Pkg, ct.Key)
		short := strings.TrimPrefix(k, modulePath+"/")
		f := g.newFnVC(fn, ct, short)
		if fn == nil {
			f.obls = append(f.obls, &Obl{Fn: short, Kind: "contract", Text: "function under contract exists in the source", Cond: "false", Status: "failed", Output: "function " + k + " not found in the current tree"})
			c.fns = append(c.fns, f)
			continue
		}
		func() {
			defer func() {
				if r := recover(); r != nil {
					if se, ok := r.(specErr); ok {
						f.obls = append(f.obls, &Obl{ID: len(f.obls), Fn: short, Kind: "contract", Text: "contract applies to the current code", Cond: "false", Status: "failed", Output: string(se)})
						f.genErr = string(se)
						return
					}
					panic(r)
				}
			}()
			f.run()
		}()
		c.applyKnownFindings(f)
		c.fns = append(c.fns, f)
	}
	// 2b. permission discipline (decided by dataflow over SSA, not by the solvers)
	for _, sc := range g.specs.Shared {
		has := false
		for _, p := range sc.Props {
			if p == prop {
				has = true
			}
		}
		if has {
			c.fns = append(c.fns, permScan(g, sc))
		}
	}
	// 3. discharge
	par := 14
	if c.tier == "thorough" {
		par = 5
	}
	sem := make(chan struct{}, par)
	var fwg sync.WaitGroup
	for _, f := range c.fns {
		if f.fn == nil {
			continue
		}
		fwg.Add(1)
		go func(f *FnVC) {
			defer fwg.Done()
			discharge(f, dischargeOpts{dir: c.scratch, timeoutS: c.timeoutS, seed: c.seed, all: c.tier == "thorough", par: par, sem: sem}, &c.stats)
		}(f)
	}
	fwg.Wait()
	// 4. report
	rc := c.report(t0, *verbose)
	return rc
}

func loadGenAll(repo, modPath, externDir string, loadDirs []string, allDirs map[string]string, dirPkg map[string]string) (*Gen, error) {
	g, err := loadGen(repo, modPath, externDir, loadDirs)
	if err != nil {
		return g, err
	}
	// load contract files of packages that were not loaded as initial packages too (callee contracts)
	for d, file := range allDirs {
		pp := dirPkg[d]
		loaded := false
		for _, ld := range loadDirs {
			if ld == d {
				loaded = true
			}
		}
		if loaded {
			continue
		}
		if err := g.specs.load(file, true, pp); err != nil {
			return g, err
		}
	}
	if err := g.specs.resolveConforms(); err != nil {
		return g, err
	}
	return g, nil
}

// applyKnownFindings adds, for each open finding on an obligation of f, the restricted obligation
// "the clause holds outside the known failing inputs".
func (c *checkCtx) applyKnownFindings(f *FnVC) {
	if f.fn == nil || f.genErr != "" {
		return
	}
	for i := range c.findings {
		k := &c.findings[i]
		if k.Status != "open" || k.Function != f.key {
			continue
		}
		for _, ob := range append([]*Obl{}, f.obls...) {
			full := ob.Kind + " :: " + ob.Text
			if ob.Cover || !(full == k.Obligation || (strings.HasSuffix(k.Obligation, "]") && strings.HasPrefix(full, k.Obligation))) {
				continue
			}
			ob.Known = k
			if k.Exclude == "" {
				continue
			}
			func() {
				defer func() {
					if r := recover(); r != nil {
						if se, ok := r.(specErr); ok {
							ob.KnownErr = string(se)
							return
						}
						panic(r)
					}
				}()
				e, err := parseSpecExpr(k.Exclude)
				if err != nil {
					ob.KnownErr = err.Error()
					return
				}
				f.cur = nil
				pred := f.trBool(f.entryEnv(), e)
				r := &Obl{ID: ob.ID, Fn: f.key, Kind: ob.Kind, Text: ob.Text + "  [outside known finding: " + k.Exclude + "]", Cond: sImp(sNot(pred), ob.Cond), Pos: ob.Pos, Restricted: ob}
				// it may assume exactly what ob assumes: place it with the same ID ordering (scriptFor uses ID)
				f.extra = append(f.extra, r)
			}()
		}
	}
	// extras are appended at the end but keep the ID of their original for assumption purposes
	f.obls = append(f.obls, f.extra...)
}

type obRecord struct {
	Name   string `json:"name"`
	Kind   string `json:"kind"`
	Status string `json:"status"`
	Solver string `json:"solver"`
	Ms     int64  `json:"ms"`
	Pos    string `json:"pos,omitempty"`
}

func (c *checkCtx) report(t0 time.Time, verbose bool) int {
	total, proved := 0, 0
	covers, coverOK := 0, 0
	var samples []obRecord
	var failed []*Obl
	var fnNames []string
	trusted := map[string]bool{}
	var warns []string
	var knownLines []string
	kinds := map[string]int{}
	solversUsed := map[string]int{}
	engineErr := false
	for _, f := range c.fns {
		fnNames = append(fnNames, f.key)
		for t := range f.trusted {
			trusted[t] = true
		}
		for _, w := range f.warns {
			warns = append(warns, f.key+": "+w)
		}
		for _, ob := range f.obls {
			if ob.Cover {
				if verbose {
					fmt.Printf("  [%s] #%d %s (%s, %d ms)\n", ob.Status, ob.ID, ob.Name(), ob.Solver, ob.Ms)
				if ob.Kind == "contract" && ob.Status == "failed" {
					fmt.Printf("      contract error: %s\n", truncate(ob.Output, 400))
				}
				}
				covers++
				switch ob.Status {
				case "cover-ok":
					coverOK++
				case "cover-fail":
					if strings.HasPrefix(ob.Text, "return") {
						warns = append(warns, f.key+": "+ob.Text+" is unreachable (dead return or contradictory facts)")
					} else {
						failed = append(failed, ob)
					}
				}
				continue
			}
			if ob.Status == "" {
				ob.Status = "failed" // generated as failed (contract error / missing function)
			}
			if ob.Known != nil && ob.Restricted == nil {
				// the original obligation of a known finding: expected to fail
				k := ob.Known
				switch {
				case ob.KnownErr != "":
					ob.Output += "\nknown-finding predicate error: " + ob.KnownErr
					total++
					failed = append(failed, ob)
				case ob.Status == "proved":
					warns = append(warns, "known finding no longer reproduces (obligation discharges): "+ob.Name())
					total++
					proved++
				case k.Exclude == "":
					// whole obligation is the finding
					knownLines = append(knownLines, fmt.Sprintf("KNOWN-FINDING: property=%s %s", c.prop, k.What))
				default:
					// decided by the restricted twin
				}
				continue
			}
			total++
			kinds[ob.Kind]++
			if ob.Status == "proved" {
				proved++
				solversUsed[ob.Solver]++
				if ob.Restricted != nil && ob.Restricted.Status != "proved" {
					knownLines = append(knownLines, fmt.Sprintf("KNOWN-FINDING: property=%s %s", c.prop, ob.Restricted.Known.What))
				}
			} else {
				if ob.Status == "engine-error" {
					engineErr = true
				}
				failed = append(failed, ob)
			}
			if len(samples) < 12 || ob.Status != "proved" {
				if len(samples) < 40 {
					samples = append(samples, obRecord{ob.Name(), ob.Kind, ob.Status, ob.Solver, ob.Ms, ob.Pos})
				}
			}
			if verbose {
				fmt.Printf("  [%s] #%d %s (%s, %d ms)\n", ob.Status, ob.ID, ob.Name(), ob.Solver, ob.Ms)
				if ob.Kind == "contract" && ob.Status == "failed" {
					fmt.Printf("      contract error: %s\n", truncate(ob.Output, 400))
				}
			}
		}
	}
	bounded, bKnown, bRC := c.runBounded()
	knownLines = append(knownLines, bKnown...)
	sort.Strings(knownLines)
	knownLines = uniq(knownLines)
	for _, l := range knownLines {
		fmt.Println(l)
	}
	// violations
	rc := 0
	if bRC == 1 {
		rc = 1
	} else if bRC == 2 {
		engineErr = true
	}
	if engineErr {
		for _, ob := range failed {
			if ob.Status == "engine-error" {
				fmt.Printf("ENGINE-ERROR %s: %s\n", ob.Name(), truncate(strings.ReplaceAll(ob.Output, "\n", " "), 400))
				break
			}
		}
		fmt.Println("ENGINE-ERROR at least one obligation could not be given to the solvers (or solvers disagree); no verdict")
		return 2
	}
	nrep := 0
	for _, ob := range failed {
		if (ob.Status == "failed" || ob.Status == "unknown") && !ob.Cover && nrep < 4 {
			for _, f := range c.fns {
				if f.key == ob.Fn {
					nrep++
					c.replay(f, ob)
				}
			}
		}
	}
	for _, ob := range failed {
		c.viol++
		path := c.writeReplay(ob)
		suffix := ""
		if !ob.Reproduced {
			suffix = " no-failing-input-found"
		}
		fmt.Printf("VIOLATION property=%s replay=%s obligation=%q status=%s%s\n", c.prop, path, ob.Name(), ob.Status, suffix)
		rc = 1
	}
	if engineErr {
		fmt.Println("ENGINE-ERROR solvers disagree on at least one obligation")
	}
	var tb []string
	tb = append(tb, "go/ssa (x/tools v0.29.0) translation of the source and the govc VC generator itself",
		"SMT solvers z3 5.1.0, z3 4.8.12, cvc5 1.0.3 (an obligation counts as discharged when one answers unsat; thorough tier requires agreement)",
		"integers: mathematical Int with explicit Go wrap-around; float64 as reals (rounding ignored) where floats occur",
		"goroutines/channels not modelled; termination claimed only where a decreases clause exists")
	for t := range trusted {
		tb = append(tb, t)
	}
	sort.Strings(tb[4:])
	sort.Strings(warns)
	ev := Evidence{PropertyID: c.prop, Tier: c.tier, Seed: c.seed, Level: "proof", WallS: time.Since(t0).Seconds(), Violations: c.viol}
	ev.Coverage = map[string]interface{}{
		"obligations":               total,
		"discharged":                proved,
		"checker_cmd":               "govc check " + c.prop + " -tier " + c.tier + "  (SSA of /repo's working tree -> SMT-LIB; z3-new / z3 / cvc5 raced per obligation)",
		"trusted_base":              tb,
		"functions_under_contract":  fnNames,
		"obligation_kinds":          kinds,
		"covers":                    covers,
		"covers_satisfiable":        coverOK,
		"solver_time_s":             float64(c.stats.totalMs) / 1000.0,
		"solver_queries":            c.stats.queries,
		"discharged_by":             solversUsed,
		"samples":                   samples,
		"abstractions_and_warnings": warns,
		"known_findings":            knownLines,
		"bounded_standins":          bounded,
		"timeout_s":                 c.timeoutS,
	}
	ev.Assumptions = tb
	if !c.noEvidence {
		os.MkdirAll(filepath.Join(c.verif, "evidence"), 0o755)
		b, _ := json.MarshalIndent(ev, "", " ")
		os.WriteFile(filepath.Join(c.verif, "evidence", c.prop+".json"), b, 0o644)
	}
	fmt.Printf("%s %s: %d functions, %d/%d obligations discharged, %d/%d covers satisfiable, solver %.1fs, wall %.1fs\n", c.prop, c.tier, len(c.fns), proved, total, coverOK, covers, float64(c.stats.totalMs)/1000, time.Since(t0).Seconds())
	if engineErr && rc == 0 {
		return 2
	}
	return rc
}

func uniq(xs []string) []string {
	var out []string
	for i, x := range xs {
		if i == 0 || x != xs[i-1] {
			out = append(out, x)
		}
	}
	return out
}

func (c *checkCtx) writeReplay(ob *Obl) string {
	dir := c.replayDir
	os.MkdirAll(dir, 0o755)
	name := fmt.Sprintf("%s_%s_%d.json", c.prop, sanitize(ob.Fn), ob.ID)
	path := filepath.Join(dir, name)
	rec := map[string]interface{}{
		"property":      c.prop,
		"obligation":    ob.Name(),
		"function":      ob.Fn,
		"kind":          ob.Kind,
		"pos":           ob.Pos,
		"status":        ob.Status,
		"solver":        ob.Solver,
		"solver_output": truncate(ob.Output, 4000),
		"reproduced":    ob.Reproduced,
		"input":         ob.Input,
		"replay_log":    ob.ReplayLog,
	}
	b, _ := json.MarshalIndent(rec, "", " ")
	os.WriteFile(path, b, 0o644)
	return path
}

func truncate(s string, n int) string {
	if len(s) > n {
		return s[:n] + "..."
	}
	return s
}

func cmdReplay(args []string) int {
	if len(args) < 1 {
		return 2
	}
	b, err := os.ReadFile(args[0])
	if err != nil {
		fmt.Println(err)
		return 2
	}
	var rec map[string]interface{}
	if err := json.Unmarshal(b, &rec); err != nil {
		fmt.Println(err)
		return 2
	}
	fmt.Printf("obligation: %v\nstatus: %v\ninput: %v\n", rec["obligation"], rec["status"], rec["input"])
	if bf, _ := rec["bounded_file"].(string); bf != "" {
		scratch, _ := os.MkdirTemp("", "govc-replay-")
		defer os.RemoveAll(scratch)
		c := &checkCtx{scratch: scratch, repo: "/repo", tier: "thorough"}
		pkg, _ := rec["bounded_pkg"].(string)
		run, _ := rec["bounded_run"].(string)
		out, _ := c.runHarness(boundedHarness{file: bf, pkg: pkg, run: run})
		in, _ := rec["input"].(string)
		for _, l := range strings.Split(out, "\n") {
			if strings.HasPrefix(strings.TrimSpace(l), "BOUNDED-FAIL ") && strings.Contains(l, in) {
				fmt.Println(l)
				fmt.Println("REPRODUCED")
				return 1
			}
		}
		fmt.Println("not reproduced on the current tree")
		return 0
	}
	src, _ := rec["replay_src"].(string)
	dir, _ := rec["pkg_dir"].(string)
	if src == "" || dir == "" {
		fmt.Println("no executable replay recorded (no-failing-input-found); solver output:")
		fmt.Println(rec["solver_output"])
		return 0
	}
	scratch, _ := os.MkdirTemp("", "govc-replay-")
	defer os.RemoveAll(scratch)
	c := &checkCtx{scratch: scratch}
	out, _ := c.runOverlayTest(dir, src)
	fmt.Println(out)
	if strings.Contains(out, "REPLAY-PANIC") || strings.Contains(out, " false :: ") {
		fmt.Println("REPRODUCED")
		return 1
	}
	fmt.Println("not reproduced on the current tree")
	return 0
}

func cmdSSA(args []string) int {
	dirs := contractDirs("/repo")
	var dl []string
	for d := range dirs {
		if strings.HasSuffix(d, args[0]) {
			dl = append(dl, d)
		}
	}
	if len(dl) == 0 {
		dl = []string{filepath.Join("/repo", args[0])}
	}
	g, err := loadGen("/repo", modulePath, "/verif/externs", dl)
	if err != nil {
		fmt.Println(err)
		return 2
	}
	for pp := range g.ssaPkgs {
		if fn := g.findFunc(pp, args[1]); fn != nil {
			fn.WriteTo(os.Stdout)
			for _, a := range fn.AnonFuncs {
				fmt.Println("anon:", a.RelString(fn.Pkg.Pkg))
			}
		}
	}
	return 0
}

// permScan checks "shared atomic T.f": every access to field f of T in the package goes through sync/atomic.
// completeScan: `shared complete T`: the protocol of T (its representation invariant, what may be sent to the wrapped
// object and when) is specified method by method, so every method T or *T has in its package must be under contract -
// a method added later cannot silently bypass the protocol.
func completeScan(g *Gen, sc SharedClause) *FnVC {
	short := strings.TrimPrefix(sc.Pkg, modulePath+"/")
	f := g.newFnVC(nil, nil, short+".complete."+sc.Type)
	f.genErr = "perm"
	var missing []string
	n := 0
	if pkg := g.ssaPkgs[sc.Pkg]; pkg != nil {
		if tm, ok := pkg.Members[sc.Type].(*ssa.Type); ok {
			seen := map[string]bool{}
			for _, t := range []types.Type{tm.Type(), types.NewPointer(tm.Type())} {
				ms := g.prog.MethodSets.MethodSet(t)
				for i := 0; i < ms.Len(); i++ {
					fn := g.prog.MethodValue(ms.At(i))
					if fn == nil || fn.Pkg != pkg || fn.Synthetic != "" {
						continue // promoted from an embedded field of another package, or a wrapper
					}
					key := fn.RelString(pkg.Pkg)
					if seen[key] {
						continue
					}
					seen[key] = true
					n++
					if _, has := g.specs.Contracts[sc.Pkg+"."+key]; !has {
						missing = append(missing, key)
					}
				}
			}
		} else {
			missing = append(missing, "type "+sc.Type+" not found")
		}
	}
	ob := &Obl{ID: 0, Fn: f.key, Kind: "perm.complete", Text: fmt.Sprintf("every method of %s is under contract (%d methods)", sc.Type, n), Cond: "true", Solver: "ssa-scan"}
	if len(missing) == 0 {
		ob.Status = "proved"
	} else {
		sort.Strings(missing)
		ob.Status = "failed"
		ob.Output = "no contract for: " + strings.Join(missing, ", ")
		ob.ReplayLog = ob.Output
	}
	f.obls = append(f.obls, ob)
	return f
}

func permScan(g *Gen, sc SharedClause) *FnVC {
	if sc.Kind == "complete" {
		return completeScan(g, sc)
	}
	short := strings.TrimPrefix(sc.Pkg, modulePath+"/")
	f := g.newFnVC(nil, nil, short+".perm")
	f.genErr = "perm"
	var bad []string
	checked := 0
	pkg := g.ssaPkgs[sc.Pkg]
	var visit func(fn *ssa.Function)
	seen := map[*ssa.Function]bool{}
	visit = func(fn *ssa.Function) {
		if fn == nil || seen[fn] {
			return
		}
		seen[fn] = true
		for _, b := range fn.Blocks {
			for _, ins := range b.Instrs {
				isField := func(v ssa.Value) bool {
					fa, ok := v.(*ssa.FieldAddr)
					if !ok {
						return false
					}
					pt, ok := fa.X.Type().Underlying().(*types.Pointer)
					if !ok {
						return false
					}
					nt, ok := pt.Elem().(*types.Named)
					if !ok || nt.Obj().Name() != sc.Type || nt.Obj().Pkg() == nil || nt.Obj().Pkg().Path() != sc.Pkg {
						return false
					}
					return nt.Underlying().(*types.Struct).Field(fa.Field).Name() == sc.Field
				}
				switch x := ins.(type) {
				case *ssa.UnOp:
					if x.Op == token.MUL && isField(x.X) {
						checked++
						bad = append(bad, fmt.Sprintf("plain read in %s at %s", fn.Name(), g.fset.Position(x.Pos())))
					}
				case *ssa.Store:
					if isField(x.Addr) {
						checked++
						bad = append(bad, fmt.Sprintf("plain write in %s at %s", fn.Name(), g.fset.Position(x.Pos())))
					}
				case *ssa.Call:
					for _, a := range x.Call.Args {
						if isField(a) {
							checked++
							cal := x.Call.StaticCallee()
							if cal == nil || cal.Pkg == nil || cal.Pkg.Pkg.Path() != "sync/atomic" {
								bad = append(bad, fmt.Sprintf("address passed to non-atomic function in %s at %s", fn.Name(), g.fset.Position(x.Pos())))
							}
						}
					}
				}
			}
		}
		for _, a := range fn.AnonFuncs {
			visit(a)
		}
	}
	if pkg != nil {
		for _, m := range pkg.Members {
			switch x := m.(type) {
			case *ssa.Function:
				visit(x)
			case *ssa.Type:
				for _, t := range []types.Type{x.Type(), types.NewPointer(x.Type())} {
					ms := g.prog.MethodSets.MethodSet(t)
					for i := 0; i < ms.Len(); i++ {
						visit(g.prog.MethodValue(ms.At(i)))
					}
				}
			}
		}
	}
	ob := &Obl{ID: 0, Fn: f.key, Kind: "perm.atomic", Text: fmt.Sprintf("every access to %s.%s goes through sync/atomic (%d access sites scanned)", sc.Type, sc.Field, checked), Cond: "true", Solver: "ssa-dataflow"}
	if len(bad) == 0 {
		ob.Status = "proved"
	} else {
		ob.Status = "failed"
		sort.Strings(bad)
		ob.Output = strings.Join(bad, "; ")
		ob.ReplayLog = ob.Output
	}
	f.obls = append(f.obls, ob)
	return f
}
