package main

import (
	"bytes"
	"encoding/json"
	"fmt"
	"go/types"
	"os"
	"os/exec"
	"path/filepath"
	"strconv"
	"strings"

	"golang.org/x/tools/go/ssa"
)

// ---------- rendering contract expressions as Go (oracle for replays) ----------

type goRender struct {
	params map[string]bool
	f     *FnVC
	funcs map[string]string // generated helper funcs (recursive spec funs)
	ok    bool
	why   string
}

func (r *goRender) fail(why string) string {
	if r.ok {
		r.ok = false
		r.why = why
	}
	return "false"
}

func substSExpr(e SExpr, m map[string]SExpr) SExpr {
	switch x := e.(type) {
	case SIdent:
		if v, ok := m[x.Name]; ok {
			return v
		}
		return x
	case SBin:
		return SBin{x.Op, substSExpr(x.L, m), substSExpr(x.R, m)}
	case SUn:
		return SUn{x.Op, substSExpr(x.X, m)}
	case SCall:
		var args []SExpr
		for _, a := range x.Args {
			args = append(args, substSExpr(a, m))
		}
		return SCall{substSExpr(x.Fun, m), args}
	case SIndex:
		return SIndex{substSExpr(x.X, m), substSExpr(x.I, m)}
	case SSlice:
		var lo, hi SExpr
		if x.Lo != nil {
			lo = substSExpr(x.Lo, m)
		}
		if x.Hi != nil {
			hi = substSExpr(x.Hi, m)
		}
		return SSlice{substSExpr(x.X, m), lo, hi}
	case SField:
		return SField{substSExpr(x.X, m), x.Name}
	case SQuant:
		m2 := map[string]SExpr{}
		for k, v := range m {
			m2[k] = v
		}
		for _, v := range x.Vars {
			delete(m2, v.Name)
		}
		return SQuant{x.Forall, x.Vars, substSExpr(x.Body, m2)}
	case SIte:
		return SIte{substSExpr(x.C, m), substSExpr(x.A, m), substSExpr(x.B, m)}
	case SOld:
		return SOld{substSExpr(x.X, m)}
	}
	return e
}

func (r *goRender) expr(e SExpr) string {
	switch x := e.(type) {
	case SInt:
		return x.Val
	case SReal:
		return x.Val
	case SBool:
		return fmt.Sprint(x.Val)
	case SStr:
		return strconv.Quote(x.Val)
	case SNil:
		return "nil"
	case SIdent:
		if x.Name == "result" {
			return "result0"
		}
		if x.Name == "MaxInt64" {
			return "int64(9223372036854775807)"
		}
		if x.Name == "MinInt64" {
			return "int64(-9223372036854775808)"
		}
		if r.params[x.Name] {
			return "a_" + x.Name
		}
		if r.f.fn != nil {
			res := r.f.fn.Signature.Results()
			for i := 0; i < res.Len(); i++ {
				if res.At(i).Name() == x.Name {
					return fmt.Sprintf("result%d", i)
				}
			}
		}
		if strings.HasPrefix(x.Name, "arg") && r.f.fn != nil {
			if i, err := strconv.Atoi(x.Name[3:]); err == nil && i < len(r.f.fn.Params) {
				return "a_" + r.f.fn.Params[i].Name()
			}
		}
		return x.Name
	case SUn:
		return "(" + x.Op + r.expr(x.X) + ")"
	case SBin:
		a, b := r.expr(x.L), r.expr(x.R)
		switch x.Op {
		case "==>":
			return "(!(" + a + ") || (" + b + "))"
		case "<==>":
			return "((" + a + ") == (" + b + "))"
		}
		return "(" + a + " " + x.Op + " " + b + ")"
	case SIte:
		return "verifIte(" + r.expr(x.C) + ", " + r.expr(x.A) + ", " + r.expr(x.B) + ")"
	case SOld:
		if id, ok := x.X.(SIdent); ok {
			return "old_" + id.Name
		}
		return r.fail("old() of a compound expression")
	case SField:
		if id, ok := x.X.(SIdent); ok && !r.params[id.Name] && r.f.fn != nil && id.Name == r.f.fn.Pkg.Pkg.Name() {
			return x.Name
		}
		return r.expr(x.X) + "." + x.Name
	case SIndex:
		return r.expr(x.X) + "[" + r.expr(x.I) + "]"
	case SSlice:
		lo, hi := "", ""
		if x.Lo != nil {
			lo = r.expr(x.Lo)
		}
		if x.Hi != nil {
			hi = r.expr(x.Hi)
		}
		return r.expr(x.X) + "[" + lo + ":" + hi + "]"
	case SCall:
		if sf, ok := x.Fun.(SField); ok {
			if id, ok := sf.X.(SIdent); ok && !r.params[id.Name] {
				for _, p := range r.f.g.allPkgs {
					if p.Types != nil && p.Types.Name() == id.Name {
						replayImports[p.Types.Path()] = p.Types.Name()
						break
					}
				}
			}
			return r.expr(sf.X) + "." + sf.Name + "(" + r.args(x.Args) + ")"
		}
		id, ok := x.Fun.(SIdent)
		if !ok {
			return r.fail("call")
		}
		if sfn, ok := r.f.g.specs.SpecFuns[id.Name]; ok {
			if sfn.Uninterp {
				return r.fail("uninterpreted spec function " + id.Name)
			}
			if !sfn.Rec {
				m := map[string]SExpr{}
				for i, p := range sfn.Params {
					if i < len(x.Args) {
						m[p.Name] = x.Args[i]
					}
				}
				return "(" + r.expr(substSExpr(sfn.Body, m)) + ")"
			}
			if _, done := r.funcs[id.Name]; !done {
				r.funcs[id.Name] = ""
				var ps []string
				for _, p := range sfn.Params {
					ps = append(ps, p.Name+" "+p.Type)
				}
				body := r.expr(sfn.Body)
				r.funcs[id.Name] = fmt.Sprintf("func sf_%s(%s) %s { return %s }\n", id.Name, strings.Join(ps, ", "), sfn.Result, body)
			}
			return "sf_" + id.Name + "(" + r.args(x.Args) + ")"
		}
		switch id.Name {
		case "fresh", "allocated", "typeIs", "unbox", "hasKey", "ref", "off", "deref":
			return r.fail("spec-only builtin " + id.Name)
		}
		return id.Name + "(" + r.args(x.Args) + ")"
	case SQuant:
		if len(x.Vars) != 1 {
			return r.fail("multi-variable quantifier")
		}
		v := x.Vars[0].Name
		var body SExpr = x.Body
		var guard SExpr
		if b, ok := body.(SBin); ok && b.Op == "==>" && x.Forall {
			guard, body = b.L, b.R
		} else if b, ok := body.(SBin); ok && b.Op == "&&" && !x.Forall {
			guard, body = b.L, b.R
		} else {
			return r.fail("quantifier without range guard")
		}
		lo, hi, rest := r.bounds(guard, v)
		if lo == "" || hi == "" {
			return r.fail("quantifier range not recognised")
		}
		cond := r.expr(body)
		if rest != "" {
			if x.Forall {
				cond = "(!(" + rest + ") || " + cond + ")"
			} else {
				cond = "((" + rest + ") && " + cond + ")"
			}
		}
		if x.Forall {
			return fmt.Sprintf("func() bool { for %s := %s; %s < %s; %s++ { if !(%s) { return false } }; return true }()", v, lo, v, hi, v, cond)
		}
		return fmt.Sprintf("func() bool { for %s := %s; %s < %s; %s++ { if %s { return true } }; return false }()", v, lo, v, hi, v, cond)
	}
	return r.fail(fmt.Sprintf("%T", e))
}

func (r *goRender) args(as []SExpr) string {
	var out []string
	for _, a := range as {
		out = append(out, r.expr(a))
	}
	return strings.Join(out, ", ")
}

// bounds extracts lo <= v < hi from a conjunction; the remaining conjuncts are returned rendered.
func (r *goRender) bounds(g SExpr, v string) (lo, hi, rest string) {
	var conj []SExpr
	var flat func(e SExpr)
	flat = func(e SExpr) {
		if b, ok := e.(SBin); ok && b.Op == "&&" {
			flat(b.L)
			flat(b.R)
			return
		}
		conj = append(conj, e)
	}
	flat(g)
	var others []string
	isV := func(e SExpr) bool { id, ok := e.(SIdent); return ok && id.Name == v }
	for _, c := range conj {
		b, ok := c.(SBin)
		if ok {
			switch {
			case b.Op == "<=" && isV(b.R) && lo == "":
				lo = r.expr(b.L)
				continue
			case b.Op == "<" && isV(b.R) && lo == "":
				lo = "(" + r.expr(b.L) + ")+1"
				continue
			case b.Op == "<" && isV(b.L) && hi == "":
				hi = r.expr(b.R)
				continue
			case b.Op == "<=" && isV(b.L) && hi == "":
				hi = "(" + r.expr(b.R) + ")+1"
				continue
			case b.Op == ">=" && isV(b.L) && lo == "":
				lo = r.expr(b.R)
				continue
			case b.Op == ">" && isV(b.R) && hi == "":
				hi = r.expr(b.L)
				continue
			}
		}
		others = append(others, r.expr(c))
	}
	return lo, hi, strings.Join(others, " && ")
}

// ---------- model -> Go values ----------

type replayInput struct {
	decls   []string // Go statements constructing the arguments
	summary map[string]string
	ok      bool
	why     string
}

var replayImports = map[string]string{}

func goTypeString(t types.Type, pkg *types.Package) string {
	return types.TypeString(t, func(p *types.Package) string {
		if p == pkg {
			return ""
		}
		replayImports[p.Path()] = p.Name()
		return p.Name()
	})
}

// buildInput queries the solver model for the values of the function's parameters.
func (c *checkCtx) buildInput(f *FnVC, ob *Obl) replayInput {
	in := replayInput{summary: map[string]string{}, ok: true}
	var terms []string
	type pinfo struct {
		p  *ssa.Parameter
		tv TV
	}
	var ps []pinfo
	for _, p := range f.fn.Params {
		tv := f.paramTV[p.Name()]
		ps = append(ps, pinfo{p, tv})
		switch tv.Sort {
		case "Int", "Bool", "Real":
			terms = append(terms, tv.T)
		case "Str":
			terms = append(terms, "(slen "+tv.T+")")
		case sliceSort:
			terms = append(terms, "(s_len "+tv.T+")", "(s_ref "+tv.T+")", "(s_off "+tv.T+")")
		}
	}
	if len(terms) == 0 {
		terms = []string{"true"}
	}
	// prefer small inputs: bound every string/slice length by 8, then 64, then 1024, then unbounded
	var vals map[string]string
	for _, K := range []int{8, 64, 1024, -1} {
		var bnds []string
		for _, pi := range ps {
			switch pi.tv.Sort {
			case "Str":
				bnds = append(bnds, fmt.Sprintf("(<= (slen %s) %d)", pi.tv.T, K))
			case sliceSort:
				bnds = append(bnds, fmt.Sprintf("(<= (s_len %s) %d)", pi.tv.T, K))
			}
		}
		obk := *ob
		if K >= 0 && len(bnds) > 0 {
			obk.Cond = sOr(ob.Cond, sNot(sAnd(bnds...)))
		} else if K >= 0 {
			continue
		}
		vals, _ = modelFor(f, &obk, c.scratch, terms, 10)
		if vals != nil {
			break
		}
	}
	if vals == nil {
		in.ok = false
		in.why = "solver produced no model"
		return in
	}
	// second stage: elements
	var terms2 []string
	lens := map[string]int{}
	for _, pi := range ps {
		tv := pi.tv
		switch tv.Sort {
		case "Str":
			n, _ := strconv.Atoi(firstInt(vals["(slen "+tv.T+")"]))
			if n > 4096 {
				in.ok, in.why = false, "model needs a string longer than 4096"
				return in
			}
			lens[tv.T] = n
			for i := 0; i < n; i++ {
				terms2 = append(terms2, fmt.Sprintf("(sat %s %d)", tv.T, i))
			}
		case sliceSort:
			n, _ := strconv.Atoi(firstInt(vals["(s_len "+tv.T+")"]))
			if n > 70000 {
				in.ok, in.why = false, "model needs a slice longer than 70000"
				return in
			}
			lens[tv.T] = n
			sl, ok := tv.Ty.Underlying().(*types.Slice)
			if !ok {
				continue
			}
			if b, ok := sl.Elem().Underlying().(*types.Basic); !ok || b.Info()&types.IsInteger == 0 {
				continue
			}
			eh := f.elemHeap(sl.Elem())
			for i := 0; i < n; i++ {
				terms2 = append(terms2, fmt.Sprintf("(select (select %s (s_ref %s)) (+ (s_off %s) %d))", f.root.get(eh), tv.T, tv.T, i))
			}
		}
	}
	vals2 := map[string]string{}
	if len(terms2) > 0 {
		// pin the first-stage values so that the second model is the same input
		var pins []string
		for _, t := range terms {
			if v, ok := vals[t]; ok && t != "true" {
				pins = append(pins, "(= "+t+" "+v+")")
			}
		}
		ob2 := *ob
		ob2.Cond = sOr(ob.Cond, sNot(sAnd(pins...)))
		v2, _ := modelFor(f, &ob2, c.scratch, terms2, 30)
		if v2 == nil {
			in.ok, in.why = false, "solver produced no element model"
			return in
		}
		vals2 = v2
	}
	pkg := f.fn.Pkg.Pkg
	for _, pi := range ps {
		tv := pi.tv
		name := pi.p.Name()
		gt := goTypeString(pi.p.Type(), pkg)
		switch tv.Sort {
		case "Int":
			v, _ := smtIntValue(vals[tv.T])
			if _, isPtr := pi.p.Type().Underlying().(*types.Pointer); isPtr {
				if v == "0" {
					in.decls = append(in.decls, fmt.Sprintf("var a_%s %s = nil", name, gt))
				} else {
					el := pi.p.Type().Underlying().(*types.Pointer).Elem()
					in.decls = append(in.decls, fmt.Sprintf("var a_%s %s = new(%s)", name, gt, goTypeString(el, pkg)))
				}
				in.summary[name] = "ref " + v
				continue
			}
			if _, isInt := pi.p.Type().Underlying().(*types.Basic); !isInt {
				in.decls = append(in.decls, fmt.Sprintf("var a_%s %s", name, gt))
				in.summary[name] = "(zero value; model ref " + v + ")"
				continue
			}
			in.decls = append(in.decls, fmt.Sprintf("var a_%s %s = %s", name, gt, v))
			in.summary[name] = v
		case "Bool":
			in.decls = append(in.decls, fmt.Sprintf("var a_%s %s = %s", name, gt, vals[tv.T]))
			in.summary[name] = vals[tv.T]
		case "Str":
			n := lens[tv.T]
			bs := make([]byte, n)
			for i := 0; i < n; i++ {
				v, _ := smtIntValue(vals2[fmt.Sprintf("(sat %s %d)", tv.T, i)])
				x, _ := strconv.Atoi(v)
				bs[i] = byte(x)
			}
			in.decls = append(in.decls, fmt.Sprintf("var a_%s %s = %s", name, gt, strconv.Quote(string(bs))))
			in.summary[name] = strconv.Quote(string(bs))
		case sliceSort:
			n := lens[tv.T]
			sl := tv.Ty.Underlying().(*types.Slice)
			ref, _ := smtIntValue(vals["(s_ref "+tv.T+")"])
			if ref == "0" {
				in.decls = append(in.decls, fmt.Sprintf("var a_%s %s = nil", name, gt))
				in.summary[name] = "nil"
				continue
			}
			if b, ok := sl.Elem().Underlying().(*types.Basic); ok && b.Info()&types.IsInteger != 0 {
				eh := f.elemHeap(sl.Elem())
				var es []string
				for i := 0; i < n; i++ {
					v, _ := smtIntValue(vals2[fmt.Sprintf("(select (select %s (s_ref %s)) (+ (s_off %s) %d))", f.root.get(eh), tv.T, tv.T, i)])
					if v == "" {
						v = "0"
					}
					es = append(es, v)
				}
				lit := fmt.Sprintf("%s{%s}", gt, strings.Join(es, ", "))
				in.decls = append(in.decls, fmt.Sprintf("var a_%s %s = %s", name, gt, lit))
				in.summary[name] = truncate(lit, 600)
			} else {
				in.decls = append(in.decls, fmt.Sprintf("var a_%s %s = make(%s, %d)", name, gt, gt, n))
				in.summary[name] = fmt.Sprintf("make(%s, %d)", gt, n)
			}
		default:
			in.decls = append(in.decls, fmt.Sprintf("var a_%s %s", name, gt))
			in.summary[name] = "(zero value)"
		}
	}
	return in
}

func firstInt(s string) string {
	v, _ := smtIntValue(s)
	if v == "" {
		return "0"
	}
	return v
}

// ---------- running the replay against the real package ----------

func (c *checkCtx) replay(f *FnVC, ob *Obl) {
	if f.fn == nil || f.genErr != "" {
		return
	}
	defer func() {
		if r := recover(); r != nil {
			ob.ReplayLog += fmt.Sprintf("replay construction failed: %v\n", r)
		}
	}()
	replayImports = map[string]string{}
	in := c.buildInput(f, ob)
	if !in.ok {
		ob.ReplayLog = "no replay: " + in.why
		return
	}
	b, _ := json.Marshal(in.summary)
	ob.Input = string(b)
	pkg := f.fn.Pkg.Pkg
	fn := f.fn
	// call expression
	var argNames []string
	for _, p := range fn.Params {
		argNames = append(argNames, "a_"+p.Name())
	}
	pset := map[string]bool{}
	for _, p := range fn.Params {
		pset[p.Name()] = true
	}
	call := ""
	if fn.Signature.Recv() != nil {
		call = argNames[0] + "." + fn.Name() + "(" + strings.Join(argNames[1:], ", ") + ")"
	} else if fn.Parent() != nil {
		ob.ReplayLog = "no replay: closures cannot be called from a test"
		return
	} else {
		call = fn.Name() + "(" + strings.Join(argNames, ", ") + ")"
	}
	if fn.Signature.Variadic() {
		call = strings.TrimSuffix(call, ")") + "...)"
	}
	nres := fn.Signature.Results().Len()
	var rnames []string
	for i := 0; i < nres; i++ {
		rnames = append(rnames, fmt.Sprintf("result%d", i))
	}
	// oracle: every ensures clause rendered as Go
	var oracleLines []string
	var helperFuncs []string
	attempt := func(withOracle bool) (string, bool) {
		var sb strings.Builder
		sb.WriteString("package " + pkg.Name() + "\n\nimport (\n\t\"fmt\"\n\t\"testing\"\n")
		for _, ip := range sortedKeys(replayImports) {
			if ip != "fmt" && ip != "testing" {
				sb.WriteString("\t" + replayImports[ip] + " " + strconv.Quote(ip) + "\n")
			}
		}
		sb.WriteString(")\n\n")
		for _, h := range helperFuncs {
			if withOracle {
				sb.WriteString(h)
			}
		}
		sb.WriteString("func verifIte[T any](c bool, a, b T) T {\n\tif c {\n\t\treturn a\n\t}\n\treturn b\n}\n\n")
		sb.WriteString("func TestVerifReplay(t *testing.T) {\n")
		for _, d := range in.decls {
			sb.WriteString("\t" + d + "\n")
		}
		for _, a := range argNames {
			sb.WriteString("\t_ = " + a + "\n")
		}
		sb.WriteString("\tdefer func() {\n\t\tif r := recover(); r != nil {\n\t\t\tfmt.Printf(\"REPLAY-PANIC: %v\\n\", r)\n\t\t}\n\t}()\n")
		if nres > 0 {
			sb.WriteString("\t" + strings.Join(rnames, ", ") + " := " + call + "\n")
			for _, rn := range rnames {
				sb.WriteString("\t_ = " + rn + "\n")
			}
		} else {
			sb.WriteString("\t" + call + "\n")
		}
		sb.WriteString("\tfmt.Println(\"REPLAY-RETURNED\")\n")
		if withOracle {
			for _, l := range oracleLines {
				sb.WriteString(l)
			}
		}
		sb.WriteString("}\n")
		return sb.String(), true
	}
	if f.c != nil {
		for i, e := range f.c.Ensures {
			if id, ok := e.E.(SIdent); ok && id.Name == "nopanic" {
				continue
			}
			r := &goRender{f: f, funcs: map[string]string{}, ok: true, params: pset}
			g := r.expr(e.E)
			if !r.ok {
				continue
			}
			for _, k := range sortedKeys(r.funcs) {
				helperFuncs = append(helperFuncs, r.funcs[k])
			}
			oracleLines = append(oracleLines, fmt.Sprintf("\tfmt.Printf(\"REPLAY-ENSURES %d %%v :: %%s\\n\", %s, %s)\n", i, g, strconv.Quote(e.Text)))
		}
	}
	helperFuncs = uniqStrings(helperFuncs)
	pkgDir := filepath.Join(c.repo, strings.TrimPrefix(strings.TrimPrefix(pkg.Path(), modulePath), "/"))
	for _, withOracle := range []bool{true, false} {
		if withOracle && len(oracleLines) == 0 {
			continue
		}
		src, _ := attempt(withOracle)
		out, err := c.runOverlayTest(pkgDir, src)
		ob.ReplayLog += out
		if err != nil && strings.Contains(out, "[build failed]") {
			ob.ReplayLog += "\n(replay with oracle did not compile; retrying without)\n"
			continue
		}
		if strings.Contains(out, "REPLAY-PANIC") {
			ob.Reproduced = true
		}
		for _, l := range strings.Split(out, "\n") {
			if strings.HasPrefix(l, "REPLAY-ENSURES") && strings.Contains(l, " false :: ") {
				ob.Reproduced = true
			}
		}
		ob.ReplaySrc = src
		ob.PkgDir = pkgDir
		break
	}
}

func uniqStrings(xs []string) []string {
	seen := map[string]bool{}
	var out []string
	for _, x := range xs {
		if !seen[x] {
			seen[x] = true
			out = append(out, x)
		}
	}
	return out
}

func (c *checkCtx) runOverlayTest(pkgDir, src string) (string, error) {
	tmp, err := os.MkdirTemp(c.scratch, "replay")
	if err != nil {
		return "", err
	}
	tf := filepath.Join(tmp, "verif_replay_test.go")
	os.WriteFile(tf, []byte(src), 0o644)
	ov := map[string]map[string]string{"Replace": {filepath.Join(pkgDir, "zz_verif_replay_test.go"): tf}}
	ob, _ := json.Marshal(ov)
	of := filepath.Join(tmp, "overlay.json")
	os.WriteFile(of, ob, 0o644)
	cmd := exec.Command("go", "test", "-overlay", of, "-vet=off", "-count=1", "-timeout", "60s", "-run", "^TestVerifReplay$", "-v", ".")
	cmd.Dir = pkgDir
	cmd.Env = append(os.Environ(), "GOFLAGS=-mod=mod", "GOPROXY=off")
	var out bytes.Buffer
	cmd.Stdout = &out
	cmd.Stderr = &out
	err = cmd.Run()
	return truncate(out.String(), 6000), err
}
