package main

import (
	"go/ast"
	"regexp"
	"strconv"
	"fmt"
	"go/constant"
	"go/token"
	"go/types"
	"math/big"
	"os"
	"strings"

	"golang.org/x/tools/go/ssa"
)

func constBig(v constant.Value) (*big.Int, bool) {
	v = constant.ToInt(v)
	if v.Kind() != constant.Int {
		return nil, false
	}
	if i, ok := constant.Int64Val(v); ok {
		return big.NewInt(i), true
	}
	bi, ok := new(big.Int).SetString(v.ExactString(), 10)
	return bi, ok
}

func constString(v constant.Value) string {
	if v.Kind() == constant.String {
		return constant.StringVal(v)
	}
	return v.ExactString()
}

func realLit(v constant.Value) string {
	v = constant.ToFloat(v)
	if v.Kind() != constant.Float && v.Kind() != constant.Int {
		return "0.0"
	}
	num := constant.Num(v)
	den := constant.Denom(v)
	n, ok1 := new(big.Int).SetString(num.ExactString(), 10)
	d, ok2 := new(big.Int).SetString(den.ExactString(), 10)
	if !ok1 || !ok2 {
		return "0.0"
	}
	neg := n.Sign() < 0
	if neg {
		n.Neg(n)
	}
	s := "(/ " + n.String() + ".0 " + d.String() + ".0)"
	if neg {
		s = "(- " + s + ")"
	}
	return s
}

// ---------- main pass ----------

func (f *FnVC) run() {
	fn := f.fn
	f.findLoops()
	f.root = &State{f: f, m: map[string]string{}, kind: stRoot}
	f.regHeap("$nextref", "Int")
	f.regHeap("Gh_$goSpawns", "Int")
	f.regHeap("Gh_$chanRecvs", "Int")
	f.regHeap("Gh_$chanSends", "Int")
	// entry assumptions
	f.fact("(> " + f.root.get("$nextref") + " 0)")
	for _, p := range fn.Params {
		tv := f.val(p)
		f.paramTV[p.Name()] = tv
		f.allocatedFact(tv, f.root)
	}
	for _, fv := range fn.FreeVars {
		tv := f.val(fv)
		f.fact("(> " + tv.T + " 0)") // captured variables are cells
		f.allocatedFact(tv, f.root)
	}
	if f.c != nil {
		env := f.entryEnv()
		for _, r := range f.c.Requires {
			t := f.trBool(env, r.E)
			f.fact(t)
		}
		for _, extra := range f.extraPre {
			f.fact(extra)
		}
	}
	for _, d := range f.allDefers() {
		f.fact(sNot(f.root.get(f.deferFlag(d))))
	}
	f.defers = f.allDefers()
	for _, b := range f.order() {
		f.block(b)
	}
	f.finishLoops()
	f.frameObligations()
	f.finishLoops()
	// covers
	f.cur = nil
	f.cover("entry reachable under requires", "true")
	if os.Getenv("GOVC_COVER_ALL") != "" {
		for _, b := range f.fn.Blocks {
			if r, ok := f.reach[b.Index]; ok {
				f.cover(fmt.Sprintf("block %d reachable", b.Index), r)
			}
		}
	}
	for i, r := range f.rets {
		f.cover(fmt.Sprintf("return %d reachable (%s, block %d)", i+1, f.posStr(r.pos), r.block), r.reach)
	}
	for _, li := range f.sortedLoops() {
		// body reachable: some back edge
		var es []string
		for pi, p := range li.head.Preds {
			_ = pi
			if f.isBackEdge(p, li.head) {
				es = append(es, f.edgeTo(p, li.head))
			}
		}
		f.cover(fmt.Sprintf("loop %d body completes an iteration", li.ord), sOr(es...))
	}
	if f.c != nil {
		for i, h := range f.c.Hints {
			if !f.hintSeen[i] {
				f.cur = nil
				o := f.oblige("hint", "at \""+h.Where+"\": the anchor text occurs in the function", "false", token.NoPos)
				o.Status, o.Output = "failed", "no statement of the function contains this text (the clause was not applied)"
			}
		}
	}
	for i := 0; i < 3; i++ {
		f.finishLoops()
	}
	f.resolvePendingAlloc()
	for _, li := range f.sortedLoops() {
		if li.spec.Split == nil {
			continue
		}
		v, ok := li.names[li.spec.Split.Var]
		if !ok {
			sfail("loop %d split: unknown variable %s", li.ord, li.spec.Split.Var)
		}
		t := f.val(v).T
		for _, o := range f.obls {
			if o.Cover || o.ID < li.firstObl || o.SplitTerm != "" {
				continue
			}
			o.SplitTerm, o.SplitLo, o.SplitHi = t, li.spec.Split.Lo, li.spec.Split.Hi
		}
	}
}

func (f *FnVC) sortedLoops() []*loopInfo {
	var out []*loopInfo
	for i := 0; i < len(f.fn.Blocks); i++ {
		if li, ok := f.loops[i]; ok {
			out = append(out, li)
		}
	}
	return out
}

func (f *FnVC) allocatedFact(tv TV, st *State) { f.allocatedFactAt(tv, st.get("$nextref")) }

func (f *FnVC) allocatedFactAt(tv TV, nr string) {
	if tv.Ty == nil {
		return
	}
	switch tv.Ty.Underlying().(type) {
	case *types.Pointer, *types.Map, *types.Chan:
		f.fact("(< " + tv.T + " " + nr + ")")
	case *types.Slice:
		f.fact("(< (s_ref " + tv.T + ") " + nr + ")")
	}
}

// nextrefOfLoc: an upper bound for every reference stored in the heap version the location is read from:
// the allocation counter at the time that version was created (the entry counter for unmodified heaps).
func (f *FnVC) nextrefOfLoc(l Loc) string {
	cur := f.st.get("$nextref")
	if l.multi {
		return cur
	}
	return f.nextrefOfHeapTerm(f.st.get(l.heap), cur)
}

func (f *FnVC) nextrefOfHeapTerm(ht, cur string) string {
	if nr, ok := f.heapNextref[ht]; ok {
		return nr
	}
	// possibly a loop-havocked version that turns out to be unmodified: decided when the loops are finished
	c := f.declConst("nrb_"+sanitize(ht), "Int")
	f.pendingAlloc = append(f.pendingAlloc, [2]string{ht, cur})
	return c
}

func (f *FnVC) edgeTo(p, b *ssa.BasicBlock) string {
	var cs []string
	for i, s := range p.Succs {
		if s == b {
			if c, ok := f.edge[[2]int{p.Index, i}]; ok {
				cs = append(cs, c)
			}
		}
	}
	return sOr(cs...)
}

func (f *FnVC) block(b *ssa.BasicBlock) {
	f.cur = b
	var entryPreds []*ssa.BasicBlock
	for _, p := range b.Preds {
		if !f.isBackEdge(p, b) {
			if _, done := f.out[p.Index]; done {
				entryPreds = append(entryPreds, p)
			}
		}
	}
	var in *State
	reachIn := "true"
	if b.Index == 0 {
		in = f.root
	} else {
		var es []string
		var sts []*State
		seen := map[int]bool{}
		for _, p := range entryPreds {
			if seen[p.Index] {
				continue
			}
			seen[p.Index] = true
			es = append(es, f.edgeTo(p, b))
			sts = append(sts, f.out[p.Index])
		}
		reachIn = sOr(es...)
		if len(sts) == 1 {
			in = sts[0]
		} else {
			in = &State{f: f, m: map[string]string{}, kind: stMerge, preds: sts, edges: es, id: fmt.Sprintf("b%d", b.Index)}
		}
	}
	rc := f.declConst(fmt.Sprintf("reach_%d", b.Index), "Bool")
	li := f.loops[b.Index]
	if li != nil {
		// loop head = an arbitrary iteration: reachable only if the loop was entered, but NOT conversely --
		// otherwise the invariant assumed at the head could be used to prove the invariant on entry.
		f.fact(sImp(rc, reachIn))
	} else {
		f.fact(sEq(rc, reachIn))
	}
	f.reach[b.Index] = rc

	if li != nil {
		// invariant must hold on entry
		subst := map[ssa.Value]TV{}
		for _, in2 := range b.Instrs {
			phi, ok := in2.(*ssa.Phi)
			if !ok {
				continue
			}
			tvp := f.tv("", phi.Type())
			tvp.T = f.freshConst("entry_"+phi.Name(), tvp.Sort)
			for i, p := range b.Preds {
				if f.isBackEdge(p, b) {
					continue
				}
				if _, done := f.out[p.Index]; !done {
					continue
				}
				f.fact(sImp(f.edgeTo(p, b), sEq(tvp.T, f.val(phi.Edges[i]).T)))
			}
			subst[phi] = tvp
		}
		env := f.loopEnv(li, in, subst)
		f.reach[b.Index] = reachIn
		for _, inv := range li.spec.Invariants {
			f.oblige("inv.entry", fmt.Sprintf("loop %d invariant %s", li.ord, inv.Text), f.trBool(env, inv.E), b.Instrs[0].Pos())
		}
		f.reach[b.Index] = rc
		// havoc
		f.st = &State{f: f, m: map[string]string{}, kind: stLoop, id: fmt.Sprintf("loop%d", li.ord), loop: li, entry: in}
		// nextref only grows
		f.fact(sImp(rc, "(>= "+f.st.get("$nextref")+" "+in.get("$nextref")+")"))
		li.headState = f.st
		li.firstObl = len(f.obls)
		li.entryState = in
		li.entryReach = reachIn
		for _, in2 := range b.Instrs {
			if phi, ok := in2.(*ssa.Phi); ok {
				f.val(phi) // declares + type facts
			}
		}
		env2 := f.loopEnv(li, f.st, nil)
		for _, inv := range li.spec.Invariants {
			f.gfact(f.trBool(env2, inv.E))
		}
		if li.spec.Decreases != nil {
			li.decHead = f.trExpr(env2, li.spec.Decreases.E).T
		}
		f.st = f.st.child()
	} else {
		f.st = in.child()
	}
	hintAfter := f.hintPoints(b)
	for _, ins := range b.Instrs {
		if phi, ok := ins.(*ssa.Phi); ok {
			if li == nil {
				tv := f.val(phi)
				for i, p := range b.Preds {
					if _, done := f.out[p.Index]; !done {
						continue
					}
					f.fact(sImp(f.edgeTo(p, b), sEq(tv.T, f.val(phi.Edges[i]).T)))
				}
			}
			continue
		}
		f.instr(ins)
		for _, h := range hintAfter[ins] {
			env := f.pointEnv(ins)
			if h.Apply {
				f.applyLemma(env, h, ins.Pos())
				continue
			}
			f.oblige("hint", "at \""+h.Where+"\" assert "+h.C.Text, f.trBool(env, h.C.E), ins.Pos())
		}
	}
	f.out[b.Index] = f.st
	// back edges out of this block
	for i, s := range b.Succs {
		if !f.isBackEdge(b, s) {
			continue
		}
		l2 := f.loops[s.Index]
		ec := f.edge[[2]int{b.Index, i}]
		subst := map[ssa.Value]TV{}
		for _, in2 := range s.Instrs {
			phi, ok := in2.(*ssa.Phi)
			if !ok {
				continue
			}
			for pi, p := range s.Preds {
				if p == b {
					subst[phi] = f.val(phi.Edges[pi])
				}
			}
		}
		l2.backs = append(l2.backs, backRec{st: f.st, edge: ec})
		env := f.loopEnv(l2, f.st, subst)
		saved := f.reach[b.Index]
		f.reach[b.Index] = ec
		for _, ia := range l2.spec.IterApply {
			envA := f.loopEnv(l2, f.st, subst)
			envA.old = l2.headState
			envA.oldLazy = f.loopEnv(l2, l2.headState, nil).lazy // old(x): x at the beginning of this iteration
			f.applyLemma(envA, HintClause{Where: fmt.Sprintf("loop %d iteration", l2.ord), C: ia, Apply: true}, s.Instrs[0].Pos())
		}
		for _, inv := range l2.spec.Invariants {
			f.oblige("inv.step", fmt.Sprintf("loop %d invariant %s", l2.ord, inv.Text), f.trBool(env, inv.E), s.Instrs[0].Pos())
		}
		if l2.spec.Decreases != nil {
			d := f.trExpr(env, l2.spec.Decreases.E).T
			f.oblige("decreases", fmt.Sprintf("loop %d variant %s", l2.ord, l2.spec.Decreases.Text), sAnd("(<= 0 "+l2.decHead+")", "(< "+d+" "+l2.decHead+")"), s.Instrs[0].Pos())
		}
		for _, ie := range l2.spec.IterEns {
			envI := f.loopEnv(l2, f.st, subst)
			envI.old = l2.headState
			envI.oldLazy = f.loopEnv(l2, l2.headState, nil).lazy // old(x): x at the beginning of this iteration
			// variables declared inside the body stand for their value at the end of this iteration
			if n := len(b.Instrs); n > 0 {
				headLazy, bodyLazy := envI.lazy, f.pointEnv(b.Instrs[n-1]).lazy
				li := l2
				envI.lazy = func(name string, st *State) (TV, bool) {
					_, isHead := li.names[name]
					_, isHeadAddr := li.addrNames[name]
					if !isHead && !isHeadAddr {
						if _, isParam := f.paramTV[name]; !isParam {
							if tv, ok := bodyLazy(name, st); ok {
								return tv, true
							}
						}
					}
					return headLazy(name, st)
				}
			}
			f.oblige("iteration", fmt.Sprintf("loop %d iteration ensures %s", l2.ord, ie.Text), f.trBool(envI, ie.E), s.Instrs[0].Pos())
		}
		f.reach[b.Index] = saved
	}
}

func (f *FnVC) finishLoops() {
	f.cur = nil
	wholeOK, allowed := f.frameTargets()
	nr0 := f.root.get("$nextref")
	for _, li := range f.sortedLoops() {
		writes := map[string]bool{}
		all := false
		for bi := range li.blocks {
			if f.ball[bi] {
				all = true
			}
			for h := range f.bwrites[bi] {
				writes[h] = true
			}
		}
		// note: havocked may grow while we resolve entry values
		for ; li.done < len(li.havocked); li.done++ {
			h := li.havocked[li.done]
			if h.heap == "$nextref" {
				continue
			}
			if !all && !writes[h.heap] {
				et := h.entry.get(h.heap)
				f.fact(sEq(h.term, et))
				f.heapAlias[h.term] = et
				continue
			}
			if all || wholeOK[h.heap] || f.c == nil || f.c.AssignsAll || strings.HasPrefix(h.heap, "Gh_$") {
				continue
			}
			// objects allocated by this function before the loop and not written (nor leaked) inside it keep their contents
			for _, a := range f.allocsBefore(li) {
				if !f.allocTouchedIn(a, li) {
					for _, ah := range f.allocHeaps(a) {
						if ah == h.heap {
							ref := f.val(a).T
							f.fact(sImp(f.reach[li.head.Index], sEq(sSel(h.term, ref), sSel(h.entry.get(h.heap), ref))))
						}
					}
				}
			}
			// implicit frame invariant: outside the assigns set the heap still has its entry contents
			inv := func(H string) string { return f.frameCond(h.heap, H, allowed[h.heap], nr0) }
			f.fact(sImp(f.reach[li.head.Index], inv(h.term)))
			add := func(kind, cond string) {
				o := &Obl{ID: len(f.obls), Fn: f.key, Kind: kind, Text: fmt.Sprintf("loop %d keeps %s unchanged outside the assigns set", li.ord, h.heap), Cond: cond, Assumed: true}
				f.obls = append(f.obls, o)
			}
			add("frame.loop-entry", sImp(li.entryReach, inv(li.entryState.get(h.heap))))
			for _, bk := range li.backs {
				add("frame.loop-step", sImp(bk.edge, inv(bk.st.get(h.heap))))
			}
		}
	}
}

// ---------- instructions ----------

func (f *FnVC) define(v ssa.Value, term string) {
	tv := f.val(v)
	f.fact(sEq(tv.T, term))
}

func (f *FnVC) instr(ins ssa.Instruction) {
	switch x := ins.(type) {
	case *ssa.DebugRef:
	case *ssa.Alloc:
		f.alloc(x)
	case *ssa.BinOp:
		f.binop(x)
	case *ssa.UnOp:
		f.unop(x)
	case *ssa.Store:
		f.nilCheckAddr(x.Addr, x.Pos())
		f.storeLoc(f.resolveLoc(x.Addr), f.val(x.Val).T)
	case *ssa.FieldAddr:
		if !f.isInterior(x.X) {
			f.oblige("panic.nil", "nil dereference "+f.srcText(x.X)+"."+fieldName(x), "(not (= "+f.val(x.X).T+" 0))", x.Pos())
		}
	case *ssa.IndexAddr:
		f.indexAddr(x)
	case *ssa.Field:
		dt := f.sorts.dtOf(x.X.Type())
		f.define(x, sApp(dt.Fields[x.Field].Acc, f.val(x.X).T))
	case *ssa.Index:
		// array value or string indexing
		switch xt := x.X.Type().Underlying().(type) {
		case *types.Array:
			f.oblige("panic.index", "index in range "+f.srcText(x.X)+"["+f.srcText(x.Index)+"]", sAnd("(<= 0 "+f.val(x.Index).T+")", fmt.Sprintf("(< %s %d)", f.val(x.Index).T, xt.Len())), x.Pos())
			f.define(x, sSel(f.val(x.X).T, f.val(x.Index).T))
		default:
			s := f.val(x.X).T
			f.oblige("panic.index", "index in range "+f.srcText(x.X)+"["+f.srcText(x.Index)+"]", sAnd("(<= 0 "+f.val(x.Index).T+")", "(< "+f.val(x.Index).T+" (slen "+s+"))"), x.Pos())
			f.define(x, sApp("sat", s, f.val(x.Index).T))
		}
	case *ssa.Lookup:
		f.lookup(x)
	case *ssa.Slice:
		f.slice(x)
	case *ssa.Convert:
		f.convert(x)
	case *ssa.ChangeType:
		f.define(x, f.val(x.X).T)
	case *ssa.ChangeInterface:
		f.define(x, f.val(x.X).T)
	case *ssa.MakeInterface:
		f.makeInterface(x)
	case *ssa.TypeAssert:
		f.typeAssert(x)
	case *ssa.Extract:
		tup, ok := f.tuples[x.Tuple]
		if !ok || x.Index >= len(tup) {
			f.val(x)
			f.warn("extract from unknown tuple %s", x.Tuple.Name())
			return
		}
		f.vals[x] = tup[x.Index]
	case *ssa.Call:
		f.call(x, x.Common(), x)
	case *ssa.Go:
		f.goStmt(x)
	case *ssa.Defer:
		f.setHeap(f.deferFlag(x), "true")
	case *ssa.RunDefers:
		f.runDefers(x)
	case *ssa.MakeSlice:
		f.makeSlice(x)
	case *ssa.MakeMap:
		f.makeMap(x)
	case *ssa.MakeChan:
		f.newRef(x)
	case *ssa.MakeClosure:
		f.makeClosure(x)
	case *ssa.MapUpdate:
		f.mapUpdate(x)
	case *ssa.Range:
		f.val(x)
		if mt, ok := x.X.Type().Underlying().(*types.Map); ok {
			h := f.visitedHeap(x, mt)
			f.setHeap(h, "((as const (Array "+f.sorts.sortOf(mt.Key())+" Bool)) false)")
		}
	case *ssa.Next:
		f.next(x)
	case *ssa.Select:
		f.selectStmt(x)
	case *ssa.Send:
		// no model of channel contents; a ghost counter records that a value was sent
		h := f.regHeap("Gh_$chanSends", "Int")
		f.setHeap(h, "(+ "+f.st.get(h)+" 1)")
	case *ssa.If:
		c := f.val(x.Cond).T
		r := f.curReach()
		f.edge[[2]int{f.cur.Index, 0}] = sAnd(r, c)
		f.edge[[2]int{f.cur.Index, 1}] = sAnd(r, sNot(c))
	case *ssa.Jump:
		f.edge[[2]int{f.cur.Index, 0}] = f.curReach()
	case *ssa.Return:
		f.ret(x)
	case *ssa.Panic:
		if f.c == nil || !f.c.MayPanic {
			f.oblige("panic.explicit", "explicit panic unreachable", "false", x.Pos())
		}
	default:
		f.warn("unsupported instruction %T", ins)
		if v, ok := ins.(ssa.Value); ok {
			f.val(v)
		}
	}
}

func fieldName(x *ssa.FieldAddr) string {
	st := x.X.Type().Underlying().(*types.Pointer).Elem().Underlying().(*types.Struct)
	return st.Field(x.Field).Name()
}

// srcText gives a short readable rendering of an SSA value (source variable name when known).
func (f *FnVC) srcText(v ssa.Value) string {
	switch x := v.(type) {
	case *ssa.Const:
		if x.Value != nil {
			return x.Value.String()
		}
		return "nil"
	case *ssa.Parameter:
		return x.Name()
	case *ssa.Phi:
		if x.Comment != "" {
			return x.Comment
		}
	case *ssa.Alloc:
		if x.Comment != "" {
			return x.Comment
		}
	case *ssa.UnOp:
		if x.Op == token.MUL {
			return "*" + f.srcText(x.X)
		}
	case *ssa.FieldAddr:
		return f.srcText(x.X) + "." + fieldName(x)
	case *ssa.Global:
		return x.Name()
	case *ssa.FreeVar:
		return x.Name()
	}
	// look for a DebugRef naming it
	if ins, ok := v.(ssa.Instruction); ok && ins.Block() != nil {
		for _, b := range []*ssa.BasicBlock{ins.Block()} {
			for _, i2 := range b.Instrs {
				if d, ok := i2.(*ssa.DebugRef); ok && d.X == v && !d.IsAddr {
					if o := d.Object(); o != nil {
						return o.Name()
					}
				}
			}
		}
	}
	return v.Name()
}

func (f *FnVC) newRef(v ssa.Value) string {
	tv := f.val(v)
	nr := f.st.get("$nextref")
	f.fact(sEq(tv.T, nr))
	f.st.set("$nextref", "(+ "+nr+" 1)")
	return tv.T
}

func (f *FnVC) alloc(x *ssa.Alloc) {
	ref := f.newRef(x)
	elem := x.Type().(*types.Pointer).Elem()
	loc := f.locOfRef(ref, elem)
	f.storeLocNoRecord(loc, f.sorts.zeroOf(elem))
}

// storeLocNoRecord: initialisation of a fresh object is not a write to caller-visible memory,
// but it still changes the heap term (loops must havoc it), so we do record it.
func (f *FnVC) storeLocNoRecord(l Loc, v string) { f.storeLoc(l, v) }

func (f *FnVC) nilCheckAddr(addr ssa.Value, pos token.Pos) {
	if f.isInterior(addr) {
		return // checked at the FieldAddr/IndexAddr
	}
	if _, ok := addr.(*ssa.Alloc); ok {
		return
	}
	if _, ok := addr.(*ssa.FreeVar); ok {
		return
	}
	f.oblige("panic.nil", "nil dereference *"+f.srcText(addr), "(not (= "+f.val(addr).T+" 0))", pos)
}

func (f *FnVC) indexAddr(x *ssa.IndexAddr) {
	idx := f.val(x.Index).T
	switch xt := x.X.Type().Underlying().(type) {
	case *types.Slice:
		s := f.val(x.X).T
		f.oblige("panic.index", "index in range "+f.srcText(x.X)+"["+f.srcText(x.Index)+"]", sAnd("(<= 0 "+idx+")", "(< "+idx+" (s_len "+s+"))"), x.Pos())
	case *types.Pointer:
		at := xt.Elem().Underlying().(*types.Array)
		if !f.isInterior(x.X) {
			if _, isAlloc := x.X.(*ssa.Alloc); !isAlloc {
				f.oblige("panic.nil", "nil dereference "+f.srcText(x.X), "(not (= "+f.val(x.X).T+" 0))", x.Pos())
			}
		}
		f.oblige("panic.index", "index in range "+f.srcText(x.X)+"["+f.srcText(x.Index)+"]", sAnd("(<= 0 "+idx+")", fmt.Sprintf("(< %s %d)", idx, at.Len())), x.Pos())
	}
}

func (f *FnVC) wrap(t string, ty types.Type) string {
	if _, _, ok := intRange(ty); !ok {
		return t
	}
	return sApp(wrapName(ty), t)
}

func isPow2Minus1(n *big.Int) (int, bool) {
	if n.Sign() < 0 {
		return 0, false
	}
	m := new(big.Int).Add(n, big.NewInt(1))
	if m.BitLen() > 0 && new(big.Int).And(m, n).Sign() == 0 {
		return m.BitLen() - 1, true
	}
	return 0, false
}

// bitInfo: (alignment, width) of a non-negative integer value: value is a multiple of 2^align and < 2^width.
func (f *FnVC) bitInfo(v ssa.Value) (align, width int, ok bool) {
	if r, hit := f.bitInfoCache[v]; hit {
		return r[0], r[1], r[2] == 1
	}
	f.bitInfoCache[v] = [3]int{0, 0, 0}
	defer func() {
		k := 0
		if ok {
			k = 1
		}
		f.bitInfoCache[v] = [3]int{align, width, k}
	}()
	switch x := v.(type) {
	case *ssa.Const:
		if bi, isInt := constBig(x.Value); x.Value != nil && isInt && bi.Sign() >= 0 {
			if bi.Sign() == 0 {
				return 64, 0, true
			}
			return int(bi.TrailingZeroBits()), bi.BitLen(), true
		}
		return 0, 0, false
	case *ssa.Convert:
		if a, w, k := f.bitInfo(x.X); k {
			bits, signed := intBits(x.Type())
			if w <= bits && !(signed && w == bits) {
				return a, w, true
			}
		}
	case *ssa.BinOp:
		switch x.Op {
		case token.SHL:
			if c, isC := x.Y.(*ssa.Const); isC {
				if k, ok2 := constBig(c.Value); ok2 {
					if a, w, ok3 := f.bitInfo(x.X); ok3 {
						bits, signed := intBits(x.Type())
						nw := w + int(k.Int64())
						if nw <= bits && !(signed && nw == bits) {
							return a + int(k.Int64()), nw, true
						}
					}
				}
			}
		case token.OR, token.ADD:
			a1, w1, ok1 := f.bitInfo(x.X)
			a2, w2, ok2 := f.bitInfo(x.Y)
			if ok1 && ok2 && (a1 >= w2 || a2 >= w1) {
				return minInt(a1, a2), maxInt(w1, w2), true
			}
		case token.AND:
			if c, isC := x.Y.(*ssa.Const); isC {
				if k, ok2 := constBig(c.Value); ok2 && k.Sign() >= 0 {
					return 0, k.BitLen(), true
				}
			}
		}
	}
	if _, hi, isInt := intRange(v.Type()); isInt {
		bits, signed := intBits(v.Type())
		_ = hi
		if !signed {
			return 0, bits, true
		}
	}
	return 0, 0, false
}

func minInt(a, b int) int {
	if a < b {
		return a
	}
	return b
}
func maxInt(a, b int) int {
	if a > b {
		return a
	}
	return b
}

func pow2(k int) string { return new(big.Int).Lsh(big.NewInt(1), uint(k)).String() }

func (f *FnVC) binop(x *ssa.BinOp) {
	a, b := f.val(x.X), f.val(x.Y)
	ty := x.Type()
	xt := x.X.Type()
	var t string
	isInt := a.Sort == "Int"
	isReal := a.Sort == "Real"
	switch x.Op {
	case token.ADD:
		if a.Sort == "Str" {
			t = f.strCat(a.T, b.T)
		} else if isReal {
			t = "(+ " + a.T + " " + b.T + ")"
		} else {
			t = f.wrap("(+ "+a.T+" "+b.T+")", ty)
		}
	case token.SUB:
		if isReal {
			t = "(- " + a.T + " " + b.T + ")"
		} else {
			t = f.wrap("(- "+a.T+" "+b.T+")", ty)
		}
	case token.MUL:
		if isReal {
			t = "(" + f.rmulSym(a.T, b.T) + " " + a.T + " " + b.T + ")"
		} else {
			t = f.wrap("(* "+a.T+" "+b.T+")", ty)
		}
	case token.QUO:
		if isReal {
			// IEEE: x/0 = ±Inf, not a panic. Rounding ignored.
			t = "(" + f.rdivSym(b.T) + " " + a.T + " " + b.T + ")"
		} else {
			f.oblige("panic.div", "division by zero "+f.srcText(x.Y), "(not (= "+b.T+" 0))", x.Pos())
			t = f.wrap("("+f.divSym("tdiv", b.T)+" "+a.T+" "+b.T+")", ty)
		}
	case token.REM:
		f.oblige("panic.div", "division by zero "+f.srcText(x.Y), "(not (= "+b.T+" 0))", x.Pos())
		t = "(" + f.divSym("tmod", b.T) + " " + a.T + " " + b.T + ")"
	case token.SHL:
		if c, isC := x.Y.(*ssa.Const); isC {
			k, _ := constBig(c.Value)
			t = f.wrap("(* "+a.T+" "+pow2(int(k.Int64()))+")", ty)
		} else {
			f.shiftCheck(x)
			t = f.wrap("(bshl "+a.T+" "+b.T+")", ty)
		}
	case token.SHR:
		if c, isC := x.Y.(*ssa.Const); isC {
			k, _ := constBig(c.Value)
			t = "(div " + a.T + " " + pow2(int(k.Int64())) + ")"
		} else {
			f.shiftCheck(x)
			t = f.freshConst("shr", "Int")
			f.warn("variable shift abstracted")
		}
	case token.OR:
		a1, w1, ok1 := f.bitInfo(x.X)
		a2, w2, ok2 := f.bitInfo(x.Y)
		if ok1 && ok2 && (a1 >= w2 || a2 >= w1) {
			t = "(+ " + a.T + " " + b.T + ")"
		} else {
			t = "(bor " + a.T + " " + b.T + ")"
			if _, hi, okr := intRange(ty); okr {
				tt := f.freshConst("or", "Int")
				f.fact(sEq(tt, t))
				f.fact("(<= " + tt + " " + sBig(hi) + ")")
				if bits, signed := intBits(ty); !signed {
					_ = bits
					f.fact("(>= " + tt + " " + a.T + ")")
					f.fact("(>= " + tt + " " + b.T + ")")
					f.fact("(<= " + tt + " (+ " + a.T + " " + b.T + "))")
				}
				t = tt
			}
		}
	case token.AND:
		done := false
		if c, isC := x.Y.(*ssa.Const); isC {
			if k, ok := constBig(c.Value); ok {
				if n, isMask := isPow2Minus1(k); isMask {
					t = "(mod " + a.T + " " + pow2(n) + ")"
					done = true
				} else if k.Sign() > 0 {
					// contiguous run of ones shifted left by b: x & m = ((x div 2^b) mod 2^a) * 2^b
					b := int(k.TrailingZeroBits())
					run := new(big.Int).Rsh(k, uint(b))
					if n, isRun := isPow2Minus1(run); isRun {
						t = "(* (mod (div " + a.T + " " + pow2(b) + ") " + pow2(n) + ") " + pow2(b) + ")"
						done = true
					}
				}
			}
		}
		if !done {
			tt := f.freshConst("and", "Int")
			f.fact(sEq(tt, "(band "+a.T+" "+b.T+")"))
			if lo, hi, okr := intRange(ty); okr {
				f.fact("(<= " + sBig(lo) + " " + tt + ")")
				f.fact("(<= " + tt + " " + sBig(hi) + ")")
				if _, signed := intBits(ty); !signed {
					f.fact("(<= " + tt + " " + a.T + ")")
					f.fact("(<= " + tt + " " + b.T + ")")
				}
			}
			t = tt
		}
	case token.XOR:
		t = f.rangedUF("bxor", a.T, b.T, ty)
	case token.AND_NOT:
		t = f.rangedUF("bandnot", a.T, b.T, ty)
	case token.EQL, token.NEQ:
		t = f.equal(a, b, xt)
		if x.Op == token.NEQ {
			t = sNot(t)
		}
	case token.LSS, token.LEQ, token.GTR, token.GEQ:
		op := map[token.Token]string{token.LSS: "<", token.LEQ: "<=", token.GTR: ">", token.GEQ: ">="}[x.Op]
		if a.Sort == "Str" {
			t = sApp("str_"+map[string]string{"<": "lt", "<=": "le", ">": "gt", ">=": "ge"}[op], a.T, b.T)
			f.declFun("str_lt", []string{"Str", "Str"}, "Bool")
			f.declFun("str_le", []string{"Str", "Str"}, "Bool")
			f.declFun("str_gt", []string{"Str", "Str"}, "Bool")
			f.declFun("str_ge", []string{"Str", "Str"}, "Bool")
			f.fact(sEq(sApp("str_gt", a.T, b.T), sApp("str_lt", b.T, a.T)))
			f.fact(sEq(sApp("str_ge", a.T, b.T), sApp("str_le", b.T, a.T)))
			f.fact(sEq(sApp("str_le", a.T, b.T), sOr(sApp("str_lt", a.T, b.T), sEq(a.T, b.T))))
			f.fact(sNot(sAnd(sApp("str_lt", a.T, b.T), sApp("str_lt", b.T, a.T))))
		} else {
			t = "(" + op + " " + a.T + " " + b.T + ")"
		}
	default:
		f.warn("unsupported binop %s", x.Op)
		t = f.val(x).T
		return
	}
	_ = isInt
	f.define(x, t)
}

// divSym: the symbol for integer division / remainder. In a function whose contract says `opaque division`, a
// non-constant divisor gives an uninterpreted function: nonlinear integer arithmetic is kept out of the function's
// queries, and what is needed about such quotients is supplied by lemmas (proved elsewhere with the real meaning).
func (f *FnVC) divSym(sym, divisor string) string {
	if f.c == nil || !f.c.OpaqueDiv {
		return sym
	}
	if _, err := strconv.ParseInt(strings.TrimSpace(divisor), 10, 64); err == nil {
		return sym
	}
	return f.declFun(sym+"u", []string{"Int", "Int"}, "Int")
}

// rdivSym: real division; by a non-constant divisor it is uninterpreted under `opaque division` (see divSym).
func (f *FnVC) rdivSym(divisor string) string {
	if f.c == nil || !f.c.OpaqueDiv {
		return "/"
	}
	d := strings.TrimSpace(divisor)
	if strings.HasPrefix(d, "(/ ") || regexpNumeral.MatchString(d) {
		return "/"
	}
	return f.declFun("rdivu", []string{"Real", "Real"}, "Real")
}

// rmulSym: real multiplication of two non-constant factors is uninterpreted under `opaque division`.
func (f *FnVC) rmulSym(a, b string) string {
	if f.c == nil || !f.c.OpaqueDiv {
		return "*"
	}
	isNum := func(x string) bool {
		x = strings.TrimSpace(x)
		return strings.HasPrefix(x, "(/ ") || regexpNumeral.MatchString(x)
	}
	if isNum(a) || isNum(b) {
		return "*"
	}
	return f.declFun("rmulu", []string{"Real", "Real"}, "Real")
}

var regexpNumeral = regexp.MustCompile(`^-?[0-9]+(\.[0-9]+)?$`)

func (f *FnVC) rangedUF(fn, a, b string, ty types.Type) string {
	tt := f.freshConst(fn, "Int")
	f.fact(sEq(tt, sApp(fn, a, b)))
	if lo, hi, okr := intRange(ty); okr {
		f.fact("(<= " + sBig(lo) + " " + tt + ")")
		f.fact("(<= " + tt + " " + sBig(hi) + ")")
	}
	return tt
}

func (f *FnVC) shiftCheck(x *ssa.BinOp) {
	if _, signed := intBits(x.Y.Type()); signed {
		f.oblige("panic.shift", "negative shift count", "(>= "+f.val(x.Y).T+" 0)", x.Pos())
	}
}

// equal: Go == on two values of static type ty.
func (f *FnVC) equal(a, b TV, ty types.Type) string {
	if a.Sort == "Str" {
		f.strExt(a.T, b.T)
	}
	if a.Sort == sliceSort {
		// only comparison with nil is legal
		if b.T == "(mk_slice 0 0 0 0)" {
			return "(= (s_ref " + a.T + ") 0)"
		}
		if a.T == "(mk_slice 0 0 0 0)" {
			return "(= (s_ref " + b.T + ") 0)"
		}
	}
	return sEq(a.T, b.T)
}

func (f *FnVC) unop(x *ssa.UnOp) {
	switch x.Op {
	case token.MUL:
		f.nilCheckAddr(x.X, x.Pos())
		loc := f.resolveLoc(x.X)
		f.define(x, f.loadLoc(loc, f.st))
		f.typeFacts(f.val(x), true)
		f.allocatedFactAt(f.val(x), f.nextrefOfLoc(loc))
	case token.NOT:
		f.define(x, sNot(f.val(x.X).T))
	case token.SUB:
		a := f.val(x.X)
		if a.Sort == "Real" {
			f.define(x, "(- "+a.T+")")
		} else {
			f.define(x, f.wrap("(- "+a.T+")", x.Type()))
		}
	case token.ARROW:
		// channel receive: the value is unconstrained; a ghost counter records that a value was awaited
		hr := f.regHeap("Gh_$chanRecvs", "Int")
		f.setHeap(hr, "(+ "+f.st.get(hr)+" 1)")
		tv := f.val(x)
		if x.CommaOk {
			ok := f.freshConst("recvok", "Bool")
			et := x.Type().(*types.Tuple).At(0).Type()
			v := f.tv(f.freshConst("recv", f.sorts.sortOf(et)), et)
			f.typeFacts(v, true)
			f.tuples[x] = []TV{v, {ok, types.Typ[types.Bool], "Bool"}}
		}
		_ = tv
	case token.XOR:
		a := f.val(x.X)
		f.define(x, f.wrap("(- (- "+a.T+") 1)", x.Type()))
	default:
		f.warn("unsupported unop %s", x.Op)
		f.val(x)
	}
}

func (f *FnVC) lookup(x *ssa.Lookup) {
	switch xt := x.X.Type().Underlying().(type) {
	case *types.Map:
		mv, md := f.mapHeaps(xt)
		m := f.val(x.X).T
		k := f.val(x.Index).T
		if a := f.val(x.Index); a.Sort == "Str" {
			_ = a
		}
		present := sAnd("(not (= "+m+" 0))", sSel(sSel(f.st.get(md), m), k))
		f.fact(sImp(sSel(sSel(f.st.get(md), m), k), "(>= "+f.mapcard(sSel(f.st.get(md), m), md)+" 1)"))
		v := sIte(present, sSel(sSel(f.st.get(mv), m), k), f.sorts.zeroOf(xt.Elem()))
		if x.CommaOk {
			vt := f.tv(f.freshConst("mapv", f.sorts.sortOf(xt.Elem())), xt.Elem())
			f.fact(sEq(vt.T, v))
			f.typeFacts(vt, true)
			f.allocatedFact(vt, f.st)
			okc := f.freshConst("mapok", "Bool")
			f.fact(sEq(okc, present))
			f.tuples[x] = []TV{vt, {okc, types.Typ[types.Bool], "Bool"}}
		} else {
			f.define(x, v)
			f.typeFacts(f.val(x), true)
			f.allocatedFact(f.val(x), f.st)
		}
	default: // string
		s := f.val(x.X).T
		idx := f.val(x.Index).T
		f.oblige("panic.index", "index in range "+f.srcText(x.X)+"["+f.srcText(x.Index)+"]", sAnd("(<= 0 "+idx+")", "(< "+idx+" (slen "+s+"))"), x.Pos())
		f.define(x, sApp("sat", s, idx))
	}
}

func (f *FnVC) slice(x *ssa.Slice) {
	lo := "0"
	if x.Low != nil {
		lo = f.val(x.Low).T
	}
	switch xt := x.X.Type().Underlying().(type) {
	case *types.Slice:
		s := f.val(x.X).T
		hi := "(s_len " + s + ")"
		if x.High != nil {
			hi = f.val(x.High).T
		}
		capT := "(s_cap " + s + ")"
		mx := capT
		if x.Max != nil {
			mx = f.val(x.Max).T
		}
		f.oblige("panic.slice", "slice bounds in range "+f.srcText(x.X)+"["+f.optText(x.Low)+":"+f.optText(x.High)+"]", sAnd("(<= 0 "+lo+")", "(<= "+lo+" "+hi+")", "(<= "+hi+" "+mx+")", "(<= "+mx+" "+capT+")"), x.Pos())
		f.define(x, sApp("mk_slice", "(s_ref "+s+")", sAdd("(s_off "+s+")", lo), sSub(hi, lo), sSub(mx, lo)))
		_ = xt
	case *types.Basic: // string
		s := f.val(x.X).T
		hi := "(slen " + s + ")"
		if x.High != nil {
			hi = f.val(x.High).T
		}
		f.oblige("panic.slice", "slice bounds in range "+f.srcText(x.X)+"["+f.optText(x.Low)+":"+f.optText(x.High)+"]", sAnd("(<= 0 "+lo+")", "(<= "+lo+" "+hi+")", "(<= "+hi+" (slen "+s+"))"), x.Pos())
		f.define(x, f.strSub(s, lo, hi))
	case *types.Pointer: // *array
		at := xt.Elem().Underlying().(*types.Array)
		n := fmt.Sprint(at.Len())
		hi := n
		if x.High != nil {
			hi = f.val(x.High).T
		}
		mx := n
		if x.Max != nil {
			mx = f.val(x.Max).T
		}
		f.oblige("panic.slice", "slice bounds in range "+f.srcText(x.X)+"["+f.optText(x.Low)+":"+f.optText(x.High)+"]", sAnd("(<= 0 "+lo+")", "(<= "+lo+" "+hi+")", "(<= "+hi+" "+mx+")", "(<= "+mx+" "+n+")"), x.Pos())
		if f.isInterior(x.X) {
			f.warn("slice of interior array %s abstracted", x.X.Name())
			f.val(x)
			return
		}
		ref := f.val(x.X).T
		f.elemHeap(at.Elem())
		f.define(x, sApp("mk_slice", ref, lo, sSub(hi, lo), sSub(mx, lo)))
	}
}

func (f *FnVC) optText(v ssa.Value) string {
	if v == nil {
		return ""
	}
	return f.srcText(v)
}

func (f *FnVC) convert(x *ssa.Convert) {
	from, to := x.X.Type().Underlying(), x.Type().Underlying()
	a := f.val(x.X)
	fs, ts := f.sorts.sortOf(from), f.sorts.sortOf(to)
	switch {
	case fs == "Int" && ts == "Int":
		if _, _, ok := intRange(to); ok {
			// pointer<->unsafe etc fall here too
			f.define(x, f.wrap(a.T, to))
		} else {
			f.define(x, a.T)
		}
	case fs == "Int" && ts == "Real":
		f.define(x, "(to_real "+a.T+")")
	case fs == "Real" && ts == "Int":
		// truncation toward zero when in range; otherwise implementation-defined (unconstrained)
		tv := f.val(x)
		f.typeFacts(tv, true)
		lo, hi, _ := intRange(to)
		tr := "(ite (>= " + a.T + " 0.0) (to_int " + a.T + ") (- (to_int (- " + a.T + "))))"
		inr := sAnd("(<= (to_real "+sBig(lo)+") "+a.T+")", "(<= "+a.T+" (to_real "+sBig(hi)+"))", f.realFinite(a.T))
		f.fact(sImp(inr, sEq(tv.T, tr)))
	case fs == "Real" && ts == "Real":
		f.define(x, a.T)
	case fs == "Str" && ts == sliceSort:
		// []byte(s) / []rune(s): fresh backing
		sl := to.(*types.Slice)
		r := f.freshConst("convref", "Int")
		nr := f.st.get("$nextref")
		f.fact(sEq(r, nr))
		f.st.set("$nextref", "(+ "+nr+" 1)")
		f.recordWrite("$nextref")
		stv := f.val(x)
		f.typeFacts(stv, true)
		eh := f.elemHeap(sl.Elem())
		arr := f.freshConst("convarr", "(Array Int "+f.sorts.sortOf(sl.Elem())+")")
		f.setHeap(eh, sStore(f.st.get(eh), r, arr))
		f.fact(sEq("(s_ref "+stv.T+")", r))
		f.fact(sEq("(s_off "+stv.T+")", "0"))
		if b, ok := sl.Elem().Underlying().(*types.Basic); ok && b.Kind() == types.Uint8 {
			f.fact(sEq("(s_len "+stv.T+")", "(slen "+a.T+")"))
			f.fact(sEq(a.T, sApp("sfromb", arr, "0", "(slen "+a.T+")")))
			f.needStrAxioms()
		} else {
			// runes: one rune per 1..4 bytes
			f.fact("(<= (s_len " + stv.T + ") (slen " + a.T + "))")
			f.fact("(=> (> (slen " + a.T + ") 0) (> (s_len " + stv.T + ") 0))")
		}
	case fs == sliceSort && ts == "Str":
		sl := from.(*types.Slice)
		if b, ok := sl.Elem().Underlying().(*types.Basic); ok && b.Kind() == types.Uint8 {
			eh := f.elemHeap(sl.Elem())
			f.define(x, f.strFromBytes(sSel(f.st.get(eh), "(s_ref "+a.T+")"), "(s_off "+a.T+")", "(s_len "+a.T+")"))
		} else {
			tv := f.val(x)
			f.fact("(>= (slen " + tv.T + ") (s_len " + a.T + "))")
			f.fact("(=> (= (s_len " + a.T + ") 0) (= " + tv.T + " str_empty))")
			f.declFun("runes2str", []string{"(Array Int Int)", "Int", "Int"}, "Str")
			eh := f.elemHeap(sl.Elem())
			f.fact(sEq(tv.T, sApp("runes2str", sSel(f.st.get(eh), "(s_ref "+a.T+")"), "(s_off "+a.T+")", "(s_len "+a.T+")")))
		}
	case fs == "Int" && ts == "Str":
		tv := f.val(x)
		f.fact("(and (<= 1 (slen " + tv.T + ")) (<= (slen " + tv.T + ") 4))")
	default:
		f.define(x, a.T)
	}
}

func (f *FnVC) realFinite(t string) string { return "true" }

func (f *FnVC) typeTag(t types.Type) string {
	name := "tag_" + sanitize(typeKey(t))
	if !f.declSet[f.sym(name)] {
		c := f.declConst(name, "Int")
		// distinct tags
		for _, o := range f.tagList {
			f.fact("(not (= " + c + " " + o + "))")
		}
		f.tagList = append(f.tagList, c)
		f.fact("(> " + c + " 0)")
		if f.tagTypes == nil {
			f.tagTypes = map[string]types.Type{}
		}
		f.tagTypes[c] = t
		// what Go's type system says about this concrete type and the interfaces asserted so far
		for _, fn := range sortedKeys(f.ifaceAsserts) {
			f.implFact(fn, f.ifaceAsserts[fn], c, t)
		}
	}
	return f.sym(name)
}

// implFact: implements_I(tag(T)) is decided by the type checker for a concrete type T.
func (f *FnVC) implFact(fn string, it *types.Interface, tag string, t types.Type) {
	if _, isIface := t.Underlying().(*types.Interface); isIface {
		return
	}
	if types.Implements(t, it) {
		f.fact(sApp(fn, tag))
	} else {
		f.fact(sNot(sApp(fn, tag)))
	}
}

func (f *FnVC) boxFun(t types.Type) (box, unbox string) {
	so := f.sorts.sortOf(t)
	n := sanitize(typeKey(t))
	box = f.declFun("box_"+n, []string{so}, "Int")
	unbox = f.declFun("unbox_"+n, []string{"Int"}, so)
	return
}

func (f *FnVC) makeInterface(x *ssa.MakeInterface) {
	t := x.X.Type()
	a := f.val(x.X)
	box, unbox := f.boxFun(t)
	b := sApp(box, a.T)
	f.define(x, b)
	f.fact("(> " + b + " 0)")
	f.fact(sEq(sApp(unbox, b), a.T))
	f.fact(sEq(sApp("typeof", b), f.typeTag(t)))
}

func (f *FnVC) typeAssert(x *ssa.TypeAssert) {
	a := f.val(x.X)
	at := x.AssertedType
	if _, isIface := at.Underlying().(*types.Interface); isIface {
		// interface-to-interface: succeeds iff non-nil and dynamic type implements; abstract
		okc := f.freshConst("implok", "Bool")
		impl := f.declFun("implements_"+sanitize(typeKey(at)), []string{"Int"}, "Bool")
		if f.ifaceAsserts == nil {
			f.ifaceAsserts = map[string]*types.Interface{}
		}
		if _, seen := f.ifaceAsserts[impl]; !seen {
			it := at.Underlying().(*types.Interface)
			f.ifaceAsserts[impl] = it
			for _, tag := range sortedKeys(f.tagTypes) {
				f.implFact(impl, it, tag, f.tagTypes[tag])
			}
		}
		f.fact(sEq(okc, sAnd("(not (= "+a.T+" 0))", sApp(impl, sApp("typeof", a.T)))))
		if x.CommaOk {
			v := f.tv(f.freshConst("ta", "Int"), at)
			f.fact(sImp(okc, sEq(v.T, a.T)))
			f.fact(sImp(sNot(okc), sEq(v.T, "0")))
			f.tuples[x] = []TV{v, {okc, types.Typ[types.Bool], "Bool"}}
		} else {
			f.oblige("panic.typeassert", "type assertion to "+at.String()+" succeeds", okc, x.Pos())
			f.define(x, a.T)
		}
		return
	}
	_, unbox := f.boxFun(at)
	okT := sAnd("(not (= "+a.T+" 0))", sEq(sApp("typeof", a.T), f.typeTag(at)))
	if x.CommaOk {
		v := f.tv(f.freshConst("ta", f.sorts.sortOf(at)), at)
		f.fact(sEq(v.T, sIte(okT, sApp(unbox, a.T), f.sorts.zeroOf(at))))
		f.typeFacts(v, true)
		okc := f.freshConst("taok", "Bool")
		f.fact(sEq(okc, okT))
		f.tuples[x] = []TV{v, {okc, types.Typ[types.Bool], "Bool"}}
	} else {
		f.oblige("panic.typeassert", "type assertion to "+types.TypeString(at, nil)+" succeeds", okT, x.Pos())
		f.define(x, sApp(unbox, a.T))
	}
}

func (f *FnVC) makeSlice(x *ssa.MakeSlice) {
	ln, cp := f.val(x.Len).T, f.val(x.Cap).T
	mcap := "4611686018427387904"
	if sl, ok := x.Type().Underlying().(*types.Slice); ok {
		mcap = maxCapFor(sl.Elem())
	}
	f.oblige("panic.makeslice", "make: 0 <= len <= cap", sAnd("(<= 0 "+ln+")", "(<= "+ln+" "+cp+")"), x.Pos())
	// memory exhaustion is not a panic of the function: execution continues only if the allocation succeeded
	f.gfact("(<= " + cp + " " + mcap + ")")
	f.trusted["allocations succeed: a make larger than the runtime's largest allocation (2^48 bytes) is memory exhaustion, not modelled"] = true
	sl := x.Type().Underlying().(*types.Slice)
	r := f.freshConst("mkref", "Int")
	nr := f.st.get("$nextref")
	f.fact(sEq(r, nr))
	f.st.set("$nextref", "(+ "+nr+" 1)")
	eh := f.elemHeap(sl.Elem())
	f.setHeap(eh, sStore(f.st.get(eh), r, f.sorts.zeroOf(types.NewArray(sl.Elem(), 0))))
	f.define(x, sApp("mk_slice", r, "0", ln, cp))
}

func (f *FnVC) makeMap(x *ssa.MakeMap) {
	mt := x.Type().Underlying().(*types.Map)
	ref := f.newRef(x)
	mv, md := f.mapHeaps(mt)
	ks := f.sorts.sortOf(mt.Key())
	f.setHeap(md, sStore(f.st.get(md), ref, "((as const (Array "+ks+" Bool)) false)"))
	_ = mv
}

func (f *FnVC) mapUpdate(x *ssa.MapUpdate) {
	mt := x.Map.Type().Underlying().(*types.Map)
	mv, md := f.mapHeaps(mt)
	m := f.val(x.Map).T
	k := f.val(x.Key).T
	v := f.val(x.Value).T
	f.oblige("panic.nilmap", "assignment to entry in nil map "+f.srcText(x.Map), "(not (= "+m+" 0))", x.Pos())
	f.setHeap(mv, sStore(f.st.get(mv), m, sStore(sSel(f.st.get(mv), m), k, v)))
	f.setHeap(md, sStore(f.st.get(md), m, sStore(sSel(f.st.get(md), m), k, "true")))
}

func (f *FnVC) next(x *ssa.Next) {
	tt := x.Type().(*types.Tuple)
	okc := f.freshConst("nextok", "Bool")
	var out []TV
	out = append(out, TV{okc, types.Typ[types.Bool], "Bool"})
	for i := 1; i < tt.Len(); i++ {
		et := tt.At(i).Type()
		if b, isB := et.(*types.Basic); isB && b.Kind() == types.Invalid && !x.IsString {
			// unused key or value of a map range ('_'): the tuple carries no type, take it from the map
			if r, ok := x.Iter.(*ssa.Range); ok {
				if mt, ok := r.X.Type().Underlying().(*types.Map); ok {
					if i == 1 {
						et = mt.Key()
					} else {
						et = mt.Elem()
					}
				}
			}
		}
		v := f.tv(f.freshConst("next", f.sorts.sortOf(et)), et)
		f.typeFacts(v, true)
		f.allocatedFact(v, f.st)
		out = append(out, v)
	}
	if !x.IsString {
		// map iteration: the key is in the domain, the value is the mapped value
		if r, ok := x.Iter.(*ssa.Range); ok {
			if mt, ok := r.X.Type().Underlying().(*types.Map); ok {
				mv, md := f.mapHeaps(mt)
				m := f.val(r.X).T
				f.fact(sImp(okc, sAnd("(not (= "+m+" 0))", sSel(sSel(f.st.get(md), m), out[1].T))))
				// each key is visited exactly once; when the iteration ends every key has been visited
				vh := f.visitedHeap(r, mt)
				vis := f.st.get(vh)
				f.fact(sImp(okc, sNot(sSel(vis, out[1].T))))
				ks := f.sorts.sortOf(mt.Key())
				pats := ":pattern ((select " + vis + " k))"
				if f.c != nil && f.c.DomainTrigger {
					// contract option `domain trigger`: facts about m[f(j)] meet the exit fact as well
					pats += " :pattern (" + sSel(sSel(f.st.get(md), m), "k") + ")"
				}
				f.fact(sImp(sNot(okc), "(forall ((k "+ks+")) (! (=> "+sAnd("(not (= "+m+" 0))", sSel(sSel(f.st.get(md), m), "k"))+" (select "+vis+" k)) "+pats+"))"))
				nv := f.freshConst("visited", "(Array "+ks+" Bool)")
				f.fact(sEq(nv, sIte(okc, sStore(vis, out[1].T, "true"), vis)))
				f.setHeap(vh, nv)
				if len(out) > 2 {
					f.fact(sImp(okc, sEq(out[2].T, sSel(sSel(f.st.get(mv), m), out[1].T))))
				}
			}
		}
	} else if r, ok := x.Iter.(*ssa.Range); ok {
		s := f.val(r.X).T
		f.fact(sImp(okc, sAnd("(<= 0 "+out[1].T+")", "(< "+out[1].T+" (slen "+s+"))")))
	}
	f.tuples[x] = out
}

func (f *FnVC) selectStmt(x *ssa.Select) {
	tt := x.Type().(*types.Tuple)
	var out []TV
	for i := 0; i < tt.Len(); i++ {
		et := tt.At(i).Type()
		v := f.tv(f.freshConst("sel", f.sorts.sortOf(et)), et)
		f.typeFacts(v, true)
		out = append(out, v)
	}
	n := len(x.States)
	if !x.Blocking {
		f.fact(fmt.Sprintf("(and (<= (- 1) %s) (< %s %d))", out[0].T, out[0].T, n))
	} else {
		f.fact(fmt.Sprintf("(and (<= 0 %s) (< %s %d))", out[0].T, out[0].T, n))
	}
	f.tuples[x] = out
}

func (f *FnVC) makeClosure(x *ssa.MakeClosure) {
	ref := f.newRef(x)
	f.closures[x] = x
	fnc := x.Fn.(*ssa.Function)
	f.declFun("closure_fn", []string{"Int"}, "Int")
	f.fact(sEq(sApp("closure_fn", ref), f.fnTag(fnc.String())))
	for i, b := range x.Bindings {
		bv := f.val(b)
		bf := f.declFun(fmt.Sprintf("closure_bind%d_%s", i, sanitize(bv.Sort)), []string{"Int"}, bv.Sort)
		f.fact(sEq(sApp(bf, ref), bv.T))
	}
}

func (f *FnVC) fnTag(name string) string {
	c := f.declConst("fntag_"+sanitize(name), "Int")
	return c
}

func (f *FnVC) goStmt(x *ssa.Go) {
	// a goroutine's effects may happen at any later time: havoc what it assigns now (and say so)
	c := x.Common()
	callee := c.StaticCallee()
	if callee == nil {
		if mc, ok := c.Value.(*ssa.MakeClosure); ok {
			callee = mc.Fn.(*ssa.Function)
		}
	}
	name := "?"
	if callee != nil {
		name = callee.String()
	}
	f.warn("go statement: goroutine %s is not modelled (no interleaving semantics); its preconditions are checked at the spawn point", name)
	// the goroutine starts in (at least) the state of the spawn point: its preconditions must hold here
	hs := f.regHeap("Gh_$goSpawns", "Int")
	f.setHeap(hs, "(+ "+f.st.get(hs)+" 1)")
	if callee == nil {
		return
	}
	ct := f.g.contractFor(callee)
	if ct == nil || len(ct.Requires) == 0 {
		return
	}
	var args []TV
	for _, a := range c.Args {
		args = append(args, f.val(a))
	}
	env := f.baseEnv()
	if ct.Pkg != "" {
		env.pkg = ct.Pkg
	}
	env.st = f.st
	env.old = f.st
	env.oldVars = env.vars
	env.lazy = nil
	if mc, ok := c.Value.(*ssa.MakeClosure); ok && len(callee.FreeVars) == len(mc.Bindings) {
		env.lazy = func(name string, st *State) (TV, bool) {
			for i, fv := range callee.FreeVars {
				if fv.Name() == name {
					if _, isPtr := mc.Bindings[i].Type().Underlying().(*types.Pointer); isPtr {
						loc := f.resolveLoc(mc.Bindings[i])
						return f.tv(f.loadLoc(loc, st), loc.ty), true
					}
				}
			}
			return TV{}, false
		}
	}
	if len(callee.Params) == len(args) {
		for i, p := range callee.Params {
			env.vars[p.Name()] = args[i]
		}
	}
	short := strings.TrimPrefix(name, f.g.modPath+"/")
	for _, r := range ct.Requires {
		func() {
			defer func() {
				if rec := recover(); rec != nil {
					if se, ok := rec.(specErr); ok {
						o := f.oblige("pre", "go "+short+" requires "+r.Text, "false", x.Pos())
						o.Status, o.Output = "failed", string(se)
						return
					}
					panic(rec)
				}
			}()
			f.oblige("pre", "go "+short+" requires "+r.Text, f.trBool(env, r.E), x.Pos())
		}()
	}
}

func (f *FnVC) runDefers(x *ssa.RunDefers) {
	for i := len(f.defers) - 1; i >= 0; i-- {
		d := f.defers[i]
		if d.Block().Dominates(x.Block()) {
			f.call(nil, d.Common(), d)
			continue
		}
		// a defer registered on only some paths runs exactly on those: a ghost flag set at the defer statement
		flag := f.st.get(f.deferFlag(d))
		f.condExec(flag, func() { f.call(nil, d.Common(), d) })
	}
}

func (f *FnVC) deferFlag(d *ssa.Defer) string {
	idx := 0
	for i, x := range f.allDefers() {
		if x == d {
			idx = i
		}
	}
	return f.regHeap(fmt.Sprintf("Gh_$defer_%d", idx), "Bool")
}

func (f *FnVC) allDefers() []*ssa.Defer {
	var out []*ssa.Defer
	for _, b := range f.fn.Blocks {
		for _, in := range b.Instrs {
			if d, ok := in.(*ssa.Defer); ok {
				out = append(out, d)
			}
		}
	}
	return out
}

// condExec runs fn as if guarded by `if flag { ... }`: obligations inside are gated by the flag and the
// resulting state is the merge of "executed" and "skipped".
func (f *FnVC) condExec(flag string, fn func()) {
	idx := f.cur.Index
	saved := f.reach[idx]
	f.fresh++
	rc := f.declConst(fmt.Sprintf("reach_%d_c%d", idx, f.fresh), "Bool")
	f.fact(sEq(rc, sAnd(saved, flag)))
	before := f.st
	f.st = before.child()
	f.reach[idx] = rc
	fn()
	after := f.st
	f.reach[idx] = saved
	f.st = &State{f: f, m: map[string]string{}, kind: stMerge, preds: []*State{after, before}, edges: []string{rc, sAnd(saved, sNot(flag))}, id: fmt.Sprintf("c%d", f.fresh)}
	f.st = f.st.child()
}

func (f *FnVC) ret(x *ssa.Return) {
	var res []TV
	for _, r := range x.Results {
		res = append(res, f.val(r))
	}
	if f.c != nil && len(f.c.Sets) > 0 {
		envS := f.exitEnv(res, f.st)
		for _, sc := range f.c.Sets {
			f.applySet(envS, f.root, sc)
		}
	}
	f.rets = append(f.rets, retPoint{st: f.st, reach: f.curReach(), res: res, pos: x.Pos(), block: f.cur.Index})
	if f.c == nil {
		return
	}
	env := f.exitEnv(res, f.st)
	for _, e := range f.c.Ensures {
		if id, ok := e.E.(SIdent); ok && id.Name == "nopanic" {
			continue
		}
		if e.Prop != "" && f.g.curProp != "" && !propListed(e.Prop, f.g.curProp) {
			continue // clause belongs to another property's check
		}
		if e.Tag == "assumed" {
			// definitional / trusted clause: handed to callers, not proved for this body; reported as an assumption
			f.trusted["clause assumed, not proved: "+f.key+" ensures "+e.Text] = true
			continue
		}
		txt := e.Text
		if e.Tag != "" && e.Tag != "local" {
			txt = "[" + e.Tag + "] " + txt
		}
		f.oblige("ensures", txt, f.trBool(env, e.E), x.Pos()).Prop = e.Prop
	}
}

func strJoin(xs []string) string { return strings.Join(xs, " ") }

// allocsBefore: Alloc instructions in blocks that dominate the loop head (outside the loop).
func (f *FnVC) allocsBefore(li *loopInfo) []*ssa.Alloc {
	var out []*ssa.Alloc
	for _, b := range f.fn.Blocks {
		if li.blocks[b.Index] || !b.Dominates(li.head) {
			continue
		}
		for _, in := range b.Instrs {
			if a, ok := in.(*ssa.Alloc); ok {
				out = append(out, a)
			}
		}
	}
	return out
}

func (f *FnVC) allocHeaps(a *ssa.Alloc) []string {
	elem := a.Type().(*types.Pointer).Elem()
	switch u := elem.Underlying().(type) {
	case *types.Struct:
		var hs []string
		for i := 0; i < u.NumFields(); i++ {
			h, _ := f.fieldHeap(elem, i)
			hs = append(hs, h)
		}
		return hs
	case *types.Array:
		return []string{f.elemHeap(u.Elem())}
	}
	return []string{f.cellHeap(elem)}
}

// allocTouchedIn: may the object allocated by a be written inside the loop (or has its address leaked anywhere)?
func (f *FnVC) allocTouchedIn(a *ssa.Alloc, li *loopInfo) bool {
	var visit func(v ssa.Value, depth int) bool
	visit = func(v ssa.Value, depth int) bool {
		refs := v.Referrers()
		if refs == nil {
			return true
		}
		for _, r := range *refs {
			if rb := r.Block(); rb != nil && !li.blocks[rb.Index] && li.head.Dominates(rb) {
				// happens only after the loop has been left: cannot influence any iteration
				if _, isAddr := r.(*ssa.FieldAddr); !isAddr {
					if _, isIdx := r.(*ssa.IndexAddr); !isIdx {
						continue
					}
				}
			}
			switch x := r.(type) {
			case *ssa.DebugRef:
			case *ssa.UnOp:
				if x.Op != token.MUL {
					return true
				}
			case *ssa.Store:
				if x.Val == v {
					return true // address stored somewhere: leaked
				}
				if li.blocks[x.Block().Index] {
					return true
				}
			case *ssa.FieldAddr:
				if visit(x, depth+1) {
					return true
				}
			case *ssa.IndexAddr:
				if x.X != v || visit(x, depth+1) {
					return true
				}
			default:
				return true // slices, calls, phis, ...: treat as leaked
			}
		}
		return false
	}
	return visit(a, 0)
}

// dbgValue: the value a DebugRef gives its variable. go/ssa records `m := T{...}` (composite literal of map/slice type)
// as "m is nil" followed by the literal's own DebugRef: take the literal.
func dbgValue(x *ssa.DebugRef) ssa.Value {
	c, ok := x.X.(*ssa.Const)
	if !ok || c.Value != nil || x.IsAddr {
		return x.X
	}
	obj := x.Object()
	if obj == nil || x.Expr == nil || obj.Pos() != x.Expr.Pos() {
		return x.X
	}
	b := x.Block()
	seen := false
	for _, in := range b.Instrs {
		if in == ssa.Instruction(x) {
			seen = true
			continue
		}
		if !seen {
			continue
		}
		if d, ok := in.(*ssa.DebugRef); ok {
			if _, isLit := d.Expr.(*ast.CompositeLit); isLit && !d.IsAddr && types.Identical(d.X.Type(), obj.Type()) {
				return d.X
			}
			return x.X
		}
	}
	return x.X
}

// applyLemma: `at "text" apply E` where E mentions ghost lemmas (Go functions in a file guarded by the build tag,
// never part of the product, each with a contract of its own proved like any other function - a recursive one is a
// proof by induction). A call lemma(args) inside E denotes (requires ==> ensures) for those arguments; E is ASSUMED
// at this program point (it may quantify:  apply forall k int :: lemma(xs, k)).
func (f *FnVC) applyLemma(env *Env, h HintClause, pos token.Pos) {
	defer func() {
		if r := recover(); r != nil {
			if se, ok := r.(specErr); ok {
				o := f.oblige("lemma", "at \""+h.Where+"\" apply "+h.C.Text, "false", pos)
				o.Status, o.Output = "failed", string(se)
				return
			}
			panic(r)
		}
	}()
	n := env.clone()
	n.inApply = true
	f.lemmaUsed = false
	t := f.trBool(n, h.C.E)
	if !f.lemmaUsed {
		sfail("apply: the expression mentions no ghost lemma of this package")
	}
	f.gfact(t)
}

// hintPoints: for each hint of the contract, the last instruction of block b whose source line contains the text.
func (f *FnVC) hintPoints(b *ssa.BasicBlock) map[ssa.Instruction][]HintClause {
	out := map[ssa.Instruction][]HintClause{}
	if f.c == nil || len(f.c.Hints) == 0 {
		return out
	}
	for hi, h := range f.c.Hints {
		var last ssa.Instruction
		for _, ins := range b.Instrs {
			if _, isDbg := ins.(*ssa.DebugRef); isDbg {
				continue
			}
			if !ins.Pos().IsValid() {
				continue
			}
			if strings.Contains(f.g.sourceLine(ins.Pos()), h.Where) {
				last = ins
			}
		}
		if last != nil {
			out[last] = append(out[last], h)
			if f.hintSeen == nil {
				f.hintSeen = map[int]bool{}
			}
			f.hintSeen[hi] = true
		}
	}
	return out
}

// pointEnv: names of source variables as they stand right after instruction ins.
func (f *FnVC) pointEnv(at ssa.Instruction) *Env {
	env := f.baseEnv()
	env.st = f.st
	env.old = f.root
	env.oldVars = f.paramTV
	// innermost loop around the program point
	var inner *loopInfo
	for _, li := range f.loops {
		if li.blocks[at.Block().Index] && li.headState != nil && (inner == nil || len(li.blocks) < len(inner.blocks)) {
			inner = li
		}
	}
	if inner != nil {
		env.iterOld = inner.headState
	}
	names := map[string]ssa.Value{}
	addrs := map[string]ssa.Value{}
	scan := func(b *ssa.BasicBlock, upto ssa.Instruction) {
		started := upto == nil
		// DebugRefs that follow `upto` without another instruction in between describe what it completed
		// (the assignment target of a composite literal, the variable a value was bound to)
		trailing := map[ssa.Instruction]bool{}
		if upto != nil {
			seen := false
			for _, in := range b.Instrs {
				if in == upto {
					seen = true
					continue
				}
				if seen {
					if _, ok := in.(*ssa.DebugRef); ok {
						trailing[in] = true
						continue
					}
					break
				}
			}
		}
		for i := len(b.Instrs) - 1; i >= 0; i-- {
			in := b.Instrs[i]
			if !started {
				if in == upto {
					started = true
				} else {
					if trailing[in] {
						goto use
					}
					continue
				}
			}
		use:
			switch x := in.(type) {
			case *ssa.DebugRef:
				obj := x.Object()
				if obj == nil {
					continue
				}
				if _, isVar := obj.(*types.Var); !isVar {
					continue
				}
				n := obj.Name()
				if x.IsAddr {
					if _, ok := addrs[n]; !ok {
						if _, ok2 := names[n]; !ok2 {
							addrs[n] = x.X
						}
					}
				} else if _, ok := names[n]; !ok {
					if _, ok2 := addrs[n]; !ok2 {
						names[n] = dbgValue(x)
					}
				}
			case *ssa.Phi:
				if x.Comment != "" {
					if _, ok := names[x.Comment]; !ok {
						names[x.Comment] = x
					}
				}
			}
		}
	}
	// names as they stand right AFTER `at`: what follows it in the block is not visible
	scan(at.Block(), at)
	for b := at.Block().Idom(); b != nil; b = b.Idom() {
		scan(b, nil)
	}
	fvl := f.freeVarLazy()
	env.lazy = func(name string, s *State) (TV, bool) {
		if v, ok := names[name]; ok {
			return f.val(v), true
		}
		if a, ok := addrs[name]; ok {
			loc := f.resolveLoc(a)
			return f.tv(f.loadLoc(loc, s), loc.ty), true
		}
		if tv, ok := f.paramTV[name]; ok {
			return tv, true
		}
		return fvl(name, s)
	}
	return env
}

// visitedHeap: ghost set of the keys a map iteration has produced so far.
func (f *FnVC) visitedHeap(r *ssa.Range, mt *types.Map) string {
	return f.regHeap("Gh_$visited_"+r.Name(), "(Array "+f.sorts.sortOf(mt.Key())+" Bool)")
}

// resolvePendingAlloc defines, for every heap version a pointer was loaded from, the bound below which that
// pointer lies: the allocation counter when the version was created; for versions created by a loop havoc that
// are in fact unmodified, the bound of the version they are equal to.
func (f *FnVC) resolvePendingAlloc() {
	seen := map[string]bool{}
	for _, rec := range f.pendingAlloc {
		ht, cur := rec[0], rec[1]
		if seen[ht] {
			continue
		}
		seen[ht] = true
		c := f.declConst("nrb_"+sanitize(ht), "Int")
		t := ht
		resolved := false
		for i := 0; i < 10 && !resolved; i++ {
			if nr, ok := f.heapNextref[t]; ok {
				f.fact("(= " + c + " " + nr + ")")
				resolved = true
				break
			}
			a, ok := f.heapAlias[t]
			if !ok {
				break
			}
			t = a
		}
		if !resolved {
			// a version that really was modified in a loop: everything stored in it was allocated by then
			f.fact("(= " + c + " " + cur + ")")
		}
	}
}
