package main

import (
	"fmt"
	"go/token"
	"go/types"
	"os"
	"path/filepath"
	"sort"
	"strings"

	"golang.org/x/tools/go/packages"
	"golang.org/x/tools/go/ssa"
	"golang.org/x/tools/go/ssa/ssautil"
)

type Gen struct {
	repo      string
	modPath   string
	fset      *token.FileSet
	prog      *ssa.Program
	specs     *Specs
	allPkgs   []*packages.Package
	pkgByPath map[string]*packages.Package
	ssaPkgs   map[string]*ssa.Package
	loadErrs  []string
	srcCache  map[string][]string
	curProp   string
}

// contractDirs finds package directories in the repo that carry a contracts_verif.go file.
func contractDirs(repo string) map[string]string {
	out := map[string]string{}
	filepath.Walk(repo, func(p string, info os.FileInfo, err error) error {
		if err != nil {
			return nil
		}
		if info.IsDir() && (info.Name() == ".git" || info.Name() == "vendor" || info.Name() == "docs") {
			return filepath.SkipDir
		}
		if !info.IsDir() && info.Name() == "contracts_verif.go" {
			out[filepath.Dir(p)] = p
		}
		return nil
	})
	return out
}

func loadGen(repo, modPath, externDir string, dirs []string) (*Gen, error) {
	g := &Gen{repo: repo, modPath: modPath, pkgByPath: map[string]*packages.Package{}, ssaPkgs: map[string]*ssa.Package{}}
	g.fset = token.NewFileSet()
	cfg := &packages.Config{
		Mode:       packages.LoadSyntax | packages.NeedModule | packages.NeedDeps,
		Dir:        repo,
		Fset:       g.fset,
		BuildFlags: []string{"-tags=verif"},
		Env:        append(os.Environ(), "GOFLAGS=-mod=mod", "GOPROXY=off"),
	}
	var pats []string
	for _, d := range dirs {
		rel, _ := filepath.Rel(repo, d)
		pats = append(pats, "./"+rel)
	}
	sort.Strings(pats)
	pkgs, err := packages.Load(cfg, pats...)
	if err != nil {
		return nil, err
	}
	for _, p := range pkgs {
		for _, e := range p.Errors {
			g.loadErrs = append(g.loadErrs, e.Error())
		}
	}
	if len(g.loadErrs) > 0 {
		return g, fmt.Errorf("package load errors: %s", strings.Join(g.loadErrs, "; "))
	}
	prog, spkgs := ssautil.Packages(pkgs, ssa.GlobalDebug)
	g.prog = prog
	for i, p := range pkgs {
		if spkgs[i] != nil {
			g.ssaPkgs[p.PkgPath] = spkgs[i]
		}
	}
	packages.Visit(pkgs, nil, func(p *packages.Package) {
		g.allPkgs = append(g.allPkgs, p)
		g.pkgByPath[p.PkgPath] = p
	})
	sort.Slice(g.allPkgs, func(i, j int) bool { return g.allPkgs[i].PkgPath < g.allPkgs[j].PkgPath })
	for _, p := range prog.AllPackages() {
		if _, ok := g.ssaPkgs[p.Pkg.Path()]; !ok {
			g.ssaPkgs[p.Pkg.Path()] = p
		}
	}
	prog.Build()
	pkgDirs := map[string]string{}
	for _, p := range pkgs {
		if len(p.GoFiles) > 0 {
			pkgDirs[p.PkgPath] = filepath.Dir(p.GoFiles[0])
		}
	}
	sp, err := loadAllSpecs(externDir, repo, pkgDirs)
	if err != nil {
		return g, err
	}
	g.specs = sp
	return g, nil
}

// findFunc locates an SSA function by package path and RelString key (including closures "f$1").
func (g *Gen) findFunc(pkgPath, key string) *ssa.Function {
	p := g.ssaPkgs[pkgPath]
	if p == nil {
		return nil
	}
	// function literal assigned to a package-level variable:  var:name
	if strings.HasPrefix(key, "var:") {
		initFn := p.Func("init")
		if initFn == nil {
			return nil
		}
		for _, b := range initFn.Blocks {
			for _, ins := range b.Instrs {
				st, ok := ins.(*ssa.Store)
				if !ok {
					continue
				}
				gv, ok := st.Addr.(*ssa.Global)
				if !ok || gv.Name() != key[4:] {
					continue
				}
				v := st.Val
				if mc, ok := v.(*ssa.MakeClosure); ok {
					v = mc.Fn
				}
				if fn, ok := v.(*ssa.Function); ok {
					return fn
				}
			}
		}
		return nil
	}
	// closure stored in a package-level map literal:  name["key"]
	if i := strings.Index(key, "[\""); i > 0 && strings.HasSuffix(key, "\"]") {
		mk := key[i+2 : len(key)-2]
		initFn := p.Func("init")
		if initFn == nil {
			return nil
		}
		for _, b := range initFn.Blocks {
			for _, ins := range b.Instrs {
				mu, ok := ins.(*ssa.MapUpdate)
				if !ok {
					continue
				}
				kc, ok := mu.Key.(*ssa.Const)
				if !ok || kc.Value == nil || constString(kc.Value) != mk {
					continue
				}
				v := mu.Value
				if ct, ok := v.(*ssa.ChangeType); ok {
					v = ct.X
				}
				if mc, ok := v.(*ssa.MakeClosure); ok {
					v = mc.Fn
				}
				if fn, ok := v.(*ssa.Function); ok {
					return fn
				}
			}
		}
		return nil
	}
	var found *ssa.Function
	var visit func(fn *ssa.Function)
	visit = func(fn *ssa.Function) {
		if found != nil || fn == nil {
			return
		}
		if fn.RelString(p.Pkg) == key {
			found = fn
			return
		}
		for _, a := range fn.AnonFuncs {
			visit(a)
		}
	}
	for _, m := range p.Members {
		switch x := m.(type) {
		case *ssa.Function:
			visit(x)
		case *ssa.Type:
			for _, t := range []interface{ NumMethods() int }{} {
				_ = t
			}
			ms := g.prog.MethodSets.MethodSet(x.Type())
			for i := 0; i < ms.Len(); i++ {
				visit(g.prog.MethodValue(ms.At(i)))
			}
			pms := g.prog.MethodSets.MethodSet(typesNewPointer(x.Type()))
			for i := 0; i < pms.Len(); i++ {
				visit(g.prog.MethodValue(pms.At(i)))
			}
		}
	}
	return found
}

func (g *Gen) newFnVC(fn *ssa.Function, c *Contract, key string) *FnVC {
	return &FnVC{
		g: g, fn: fn, c: c, key: key, sorts: newSorts(),
		declSet: map[string]bool{}, heapSort: map[string]string{},
		vals: map[ssa.Value]TV{}, tuples: map[ssa.Value][]TV{},
		out: map[int]*State{}, reach: map[int]string{}, edge: map[[2]int]string{},
		bwrites: map[int]map[string]bool{}, ball: map[int]bool{},
		lits: map[string]string{}, trusted: map[string]bool{}, paramTV: map[string]TV{},
		specDefined: map[string]*specFunInfo{}, bitInfoCache: map[ssa.Value][3]int{},
		extPairs: map[string]bool{}, closures: map[ssa.Value]*ssa.MakeClosure{}, heapNextref: map[string]string{}, heapAlias: map[string]string{},
	}
}

// script assembles the SMT-LIB text shared by all obligations of the function.
func (f *FnVC) scriptHead() string { return f.scriptHeadOpt(true) }

func (f *FnVC) scriptHeadOpt(withQ bool) string { return f.scriptHeadSel(withQ, nil, nil) }

// scriptHeadSel: with keep != nil only facts generated in the given blocks (or in no block) are included.
// Any subset of the facts is a sound set of assumptions; the slice keeps queries small.
func (f *FnVC) scriptHeadSel(withQ bool, keep map[int]bool, ob *Obl) string {
	var sb strings.Builder
	sb.WriteString("(set-option :produce-models true)\n(set-logic ALL)\n")
	sb.WriteString(preludeText())
	if withQ {
		sb.WriteString(zarrAxiomText())
	}
	if f.strAx && withQ {
		sb.WriteString(strAxiomText())
	}
	for _, d := range f.sorts.decls {
		sb.WriteString(d + "\n")
	}
	for _, d := range f.decls {
		sb.WriteString(d + "\n")
	}
	for _, d := range f.specDefs {
		sb.WriteString(d + "\n")
	}
	for i, a := range f.facts {
		if !withQ && (strings.Contains(a, "(forall ") || strings.Contains(a, "(exists ")) {
			continue // cover checks and model search run on the quantifier-free part of the facts
		}
		if keep != nil && i < len(f.factBlk) && f.factBlk[i] >= 0 && !keep[f.factBlk[i]] {
			continue
		}
		if ob != nil && i < len(f.factBlk) && f.factBlk[i] == ob.Blk && i >= ob.NFact {
			continue // describes instructions after the obligation's program point in its own block
		}
		sb.WriteString("(assert " + a + ")\n")
	}
	if withQ {
		for _, a := range f.qfacts {
			sb.WriteString("(assert " + a + ")\n")
		}
		for _, a := range f.strExtFacts() {
			sb.WriteString("(assert " + a + ")\n")
		}
	}
	return sb.String()
}

func (f *FnVC) scriptFor(o *Obl, head string) string { return f.scriptForCase(o, head, "") }

func (f *FnVC) scriptForCase(o *Obl, head string, extra string) string {
	return f.scriptForSel(o, head, extra, nil)
}

func (f *FnVC) scriptForSel(o *Obl, head string, extra string, keep map[int]bool) string {
	var sb strings.Builder
	sb.WriteString(head)
	if extra != "" {
		sb.WriteString("(assert " + extra + ")\n")
	}
	if !o.Cover {
		for _, p := range f.obls {
			if p.ID >= o.ID {
				break
			}
			if p.Cover || !p.Assumed {
				continue
			}
			if keep != nil && p.Blk >= 0 && !keep[p.Blk] {
				continue
			}
			sb.WriteString("(assert " + p.Cond + ")\n")
		}
		sb.WriteString("(assert (not " + o.Cond + "))\n")
	} else {
		sb.WriteString("(assert " + o.Cond + ")\n")
	}
	sb.WriteString("(check-sat)\n")
	return sb.String()
}

func typesNewPointer(t types.Type) types.Type { return types.NewPointer(t) }

// sourceLine returns the text of the source line containing pos.
func (g *Gen) sourceLine(pos token.Pos) string {
	p := g.fset.Position(pos)
	if g.srcCache == nil {
		g.srcCache = map[string][]string{}
	}
	lines, ok := g.srcCache[p.Filename]
	if !ok {
		b, err := os.ReadFile(p.Filename)
		if err == nil {
			lines = strings.Split(string(b), "\n")
		}
		g.srcCache[p.Filename] = lines
	}
	if p.Line-1 < len(lines) && p.Line > 0 {
		return lines[p.Line-1]
	}
	return ""
}

func (g *Gen) pkgNamed(name string) *packages.Package {
	for _, p := range g.allPkgs {
		if p.Types != nil && p.Types.Name() == name {
			return p
		}
	}
	return nil
}
