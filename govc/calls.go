package main

import (
	"fmt"
	"go/token"
	"go/types"
	"strings"

	"golang.org/x/tools/go/ssa"
)

// packages whose functions are assumed not to write memory reachable from fabio data (listed in evidence)
var purePkgs = map[string]bool{
	"strings": true, "strconv": true, "fmt": true, "errors": true, "log": true, "time": true, "unicode": true,
	"unicode/utf8": true, "math": true, "sort": false, "bytes": false, "path": true, "path/filepath": true, "net/url": true,
	"os": true, "regexp": true, "math/rand": true, "net": true, "reflect": true, "sync/atomic": false,
}

func (g *Gen) isRepoFn(fn *ssa.Function) bool {
	return fn != nil && fn.Pkg != nil && strings.HasPrefix(fn.Pkg.Pkg.Path(), g.modPath)
}

func fnKey(fn *ssa.Function) string {
	if fn.Pkg == nil {
		return fn.String()
	}
	return fn.Pkg.Pkg.Path() + "." + fn.RelString(fn.Pkg.Pkg)
}

var curCallArgs []ssa.Value

func (g *Gen) contractFor(fn *ssa.Function) *Contract {
	if fn == nil {
		return nil
	}
	if g.isRepoFn(fn) {
		if c, ok := g.specs.Contracts[fnKey(fn)]; ok {
			return c
		}
		return nil
	}
	return g.findExtern(fn.String())
}

func (g *Gen) findExtern(name string) *Contract {
	if c, ok := g.specs.Contracts[name]; ok && c.Extern {
		return c
	}
	return nil
}

func (f *FnVC) call(v ssa.Value, c *ssa.CallCommon, ins ssa.Instruction) {
	pos := ins.Pos()
	var args []TV
	// builtins
	if b, ok := c.Value.(*ssa.Builtin); ok {
		f.builtin(v, b, c, pos)
		return
	}
	var callee *ssa.Function
	var ct *Contract
	name := ""
	sig := c.Signature()
	if c.IsInvoke() {
		recv := f.val(c.Value)
		f.oblige("panic.nil", "method call on nil interface "+f.srcText(c.Value)+"."+c.Method.Name(), "(not (= "+recv.T+" 0))", pos)
		args = append(args, recv)
		name = "(" + typeKey(c.Value.Type()) + ")." + c.Method.Name()
		ct = f.g.findExtern(name)
	} else {
		callee = c.StaticCallee()
		curClosure = nil
		if mc, ok := c.Value.(*ssa.MakeClosure); ok {
			curClosure = mc
		}
		if callee != nil && callee.Pkg != nil && callee.Pkg.Pkg.Path() == "sync/atomic" && f.atomicOp(v, callee, c, pos) {
			return
		}
		if callee != nil {
			name = callee.String()
			ct = f.g.contractFor(callee)
			if !f.g.isRepoFn(callee) {
				// an extern taking an interface may have a contract per dynamic argument type:  extern pkg.F[T](...)
				for _, a := range c.Args {
					if mi, ok := a.(*ssa.MakeInterface); ok {
						if sc := f.g.findExtern(callee.String() + "[" + typeKey(mi.X.Type()) + "]"); sc != nil {
							ct = sc
							break
						}
					}
				}
				// ... or per package-level variable it is called on:  extern (*T).M@pkgpath.var(...)
				if len(c.Args) > 0 {
					if gv, ok := c.Args[0].(*ssa.Global); ok && gv.Pkg != nil {
						if sc := f.g.findExtern(callee.String() + "@" + gv.Pkg.Pkg.Path() + "." + gv.Name()); sc != nil {
							ct = sc
						}
					}
				}
			}
			if mc, ok := c.Value.(*ssa.MakeClosure); ok {
				// bindings are the free variables of the closure: pass after the params
				_ = mc
			}
		} else {
			fv := f.val(c.Value)
			selfVal = fv
			f.oblige("panic.nil", "call of nil function "+f.srcText(c.Value), "(not (= "+fv.T+" 0))", pos)
			name = "func value " + f.srcText(c.Value)
			if ld, ok := c.Value.(*ssa.UnOp); ok && ld.Op == token.MUL {
				if gv, ok := ld.X.(*ssa.Global); ok && gv.Pkg != nil {
					name = "func variable " + gv.Name()
					ct = f.g.findExternOrRepo(gv.Pkg.Pkg.Path() + ".var:" + gv.Name())
				}
				if fa, ok := ld.X.(*ssa.FieldAddr); ok {
					if nt, ok := fa.X.Type().Underlying().(*types.Pointer).Elem().(*types.Named); ok && nt.Obj().Pkg() != nil {
						st := nt.Underlying().(*types.Struct)
						name = "func field " + nt.Obj().Name() + "." + st.Field(fa.Field).Name()
						ct = f.g.findExternOrRepo(nt.Obj().Pkg().Path() + ".field:" + nt.Obj().Name() + "." + st.Field(fa.Field).Name())
					}
				}
			}
			if pr, ok := c.Value.(*ssa.Parameter); ok && ct == nil && f.fn.Pkg != nil {
				// a function-typed parameter of the function under verification: contract  func param:<func>.<name>
				name = "func parameter " + pr.Name()
				ct = f.g.findExternOrRepo(f.fn.Pkg.Pkg.Path() + ".param:" + f.fn.RelString(f.fn.Pkg.Pkg) + "." + pr.Name())
			}
			if nt, ok := c.Value.Type().(*types.Named); ok && ct == nil {
				name = "functype " + typeKey(nt)
				if nt.Obj().Pkg() != nil {
					ct = f.g.findExternOrRepo(nt.Obj().Pkg().Path() + ".type:" + nt.Obj().Name())
				}
			}
		}
	}
	curCallArgs = nil
	argVals = nil
	if c.IsInvoke() {
		argVals = append(argVals, c.Value)
	}
	for _, a := range c.Args {
		args = append(args, f.val(a))
		argVals = append(argVals, a)
	}
	if ct == nil && callee != nil && f.g.isRepoFn(callee) && callee.Synthetic != "" {
		// wrappers/thunks: look through to the wrapped method when possible
		f.warn("synthetic callee %s has no contract", name)
	}
	if ct != nil {
		curCallArgs = argVals
		f.applyContract(ct, callee, sig, args, v, pos, name)
		curCallArgs = nil
		return
	}
	// no contract
	if callee != nil && f.g.isRepoFn(callee) {
		f.oblige("uncontracted", "callee "+strings.TrimPrefix(name, f.g.modPath+"/")+" has a contract", "false", pos)
		f.havocAll()
	} else {
		pk := ""
		if callee != nil && callee.Pkg != nil {
			pk = callee.Pkg.Pkg.Path()
		}
		if c.IsInvoke() || callee == nil {
			f.trusted["unspecified dynamic call "+name+": assumed not to panic; memory reachable from its arguments havocked one level"] = true
			f.havocArgs(c, args)
		} else if purePkgs[pk] {
			f.trusted["unspecified extern "+name+": assumed total, no writes to fabio-visible memory, result unconstrained"] = true
		} else {
			f.trusted["unspecified extern "+name+": assumed not to panic; memory reachable from its arguments havocked one level"] = true
			f.havocArgs(c, args)
		}
	}
	f.bumpNextref()
	f.bindResults(v, sig, nil, nil)
}

// checkFuncArgs: where the callee declares a contract for a function-typed parameter (func param:<func>.<name>), the
// function passed at this call site must have a contract of its own that fits. Supported shape: the parameter
// contract has no requires and 'assigns nothing'; the argument must be a function or closure literal whose contract
// has no requires and assigns nothing.
func (f *FnVC) checkFuncArgs(callee *ssa.Function, pos token.Pos) {
	if callee.Pkg == nil || curCallArgs == nil || len(curCallArgs) != len(callee.Params) {
		return
	}
	for i, p := range callee.Params {
		pc := f.g.findExternOrRepo(callee.Pkg.Pkg.Path() + ".param:" + callee.RelString(callee.Pkg.Pkg) + "." + p.Name())
		if pc == nil {
			continue
		}
		ok := false
		var fn *ssa.Function
		switch a := curCallArgs[i].(type) {
		case *ssa.MakeClosure:
			fn, _ = a.Fn.(*ssa.Function)
		case *ssa.Function:
			fn = a
		}
		if fn != nil {
			if ac := f.g.contractFor(fn); ac != nil && ac.HasAssign && len(ac.Assigns) == 0 && !ac.AssignsAll && len(pc.Assigns) == 0 && !pc.AssignsAll {
				// every precondition of the argument must be (textually) one of the parameter contract's preconditions
				ok = true
				for _, r := range ac.Requires {
					found := false
					for _, q := range pc.Requires {
						if strings.Join(strings.Fields(q.Text), " ") == strings.Join(strings.Fields(r.Text), " ") {
							found = true
						}
					}
					if !found {
						ok = false
					}
				}
			}
		}
		cond := "false"
		if ok {
			cond = "true"
		}
		f.oblige("conforms", "argument for parameter "+p.Name()+" of "+callee.Name()+" has a contract that fits the parameter's (its requires among the parameter's, assigns nothing)", cond, pos)
	}
}

// isGhostLemma: a function defined in a lemmas_verif.go file (build tag verif).
func (f *FnVC) isGhostLemma(fn *ssa.Function) bool {
	if fn == nil || !fn.Pos().IsValid() {
		return false
	}
	return strings.HasSuffix(f.g.fset.Position(fn.Pos()).Filename, "lemmas_verif.go")
}

func (g *Gen) findExternOrRepo(name string) *Contract {
	if c, ok := g.specs.Contracts[name]; ok {
		return c
	}
	return nil
}

func (f *FnVC) bumpNextref() {
	nr := f.freshConst("nextref", "Int")
	f.fact("(>= " + nr + " " + f.st.get("$nextref") + ")")
	f.st.set("$nextref", nr)
	f.recordWrite("$nextref")
}

func (f *FnVC) havocAll() {
	if f.cur != nil {
		f.ball[f.cur.Index] = true
	}
	f.fresh++
	id := fmt.Sprintf("havoc%d", f.fresh)
	// a fresh root-like state: every heap gets a new unconstrained version
	nr := f.st.get("$nextref")
	ns := &State{f: f, m: map[string]string{}, kind: stHavoc, id: id}
	// bookkeeping ghosts of the function under verification (defer flags, visited sets, spawn/receive counters)
	// belong to this activation: no callee can change them
	for _, h := range sortedKeys(f.heapSortSet()) {
		if strings.HasPrefix(h, "Gh_$") {
			ns.m[h] = f.st.get(h)
		}
	}
	f.st = ns
	nn := f.freshConst("nextref", "Int")
	f.fact("(>= " + nn + " " + nr + ")")
	f.st.set("$nextref", nn)
}

func (f *FnVC) heapSortSet() map[string]bool {
	m := map[string]bool{}
	for h := range f.heapSort {
		m[h] = true
	}
	return m
}

// havocArgs: one-level havoc of the objects directly reachable from pointer/slice/map arguments.
func (f *FnVC) havocArgs(c *ssa.CallCommon, args []TV) {
	for _, a := range args {
		if a.Ty == nil {
			continue
		}
		switch u := a.Ty.Underlying().(type) {
		case *types.Pointer:
			f.havocObject(a.T, u.Elem())
		case *types.Slice:
			eh := f.elemHeap(u.Elem())
			f.setHeap(eh, sStore(f.st.get(eh), "(s_ref "+a.T+")", f.freshConst("hv", "(Array Int "+f.sorts.sortOf(u.Elem())+")")))
		case *types.Map:
			mv, md := f.mapHeaps(u)
			f.setHeap(mv, sStore(f.st.get(mv), a.T, f.freshConst("hv", "(Array "+f.sorts.sortOf(u.Key())+" "+f.sorts.sortOf(u.Elem())+")")))
			f.setHeap(md, sStore(f.st.get(md), a.T, f.freshConst("hv", "(Array "+f.sorts.sortOf(u.Key())+" Bool)")))
		}
	}
}

func (f *FnVC) havocObject(ref string, elem types.Type) {
	switch u := elem.Underlying().(type) {
	case *types.Struct:
		for i := 0; i < u.NumFields(); i++ {
			h, fl := f.fieldHeap(elem, i)
			f.setHeap(h, sStore(f.st.get(h), ref, f.freshConst("hv", fl.Sort)))
		}
	case *types.Array:
		eh := f.elemHeap(u.Elem())
		f.setHeap(eh, sStore(f.st.get(eh), ref, f.freshConst("hv", "(Array Int "+f.sorts.sortOf(u.Elem())+")")))
	default:
		ch := f.cellHeap(elem)
		f.setHeap(ch, sStore(f.st.get(ch), ref, f.freshConst("hv", f.sorts.sortOf(elem))))
	}
}

// bindResults creates result values for a call (fresh constants unless given) and binds them to v.
func (f *FnVC) bindResults(v ssa.Value, sig *types.Signature, given []TV, names map[string]TV) []TV {
	res := sig.Results()
	var out []TV
	for i := 0; i < res.Len(); i++ {
		var tv TV
		if given != nil && i < len(given) {
			tv = given[i]
		} else {
			ty := res.At(i).Type()
			tv = f.tv(f.freshConst("ret", f.sorts.sortOf(ty)), ty)
			f.typeFacts(tv, true)
			f.allocatedFact(tv, f.st)
		}
		out = append(out, tv)
	}
	if v != nil {
		switch len(out) {
		case 0:
		case 1:
			f.vals[v] = out[0]
		default:
			f.tuples[v] = out
		}
	}
	return out
}

var selfVal TV

// curClosure: the closure value being called (its bindings give meaning to the callee's free variables)
var curClosure *ssa.MakeClosure

// argVals: SSA values of the arguments of the call being translated (for higher-order externs)
var argVals []ssa.Value

// applyCalls: a higher-order extern (`calls fn`) runs the closure passed as parameter fn some number of times:
// its effect on memory is the closure's own assigns set (the closure is verified against its contract separately).
func (f *FnVC) applyCalls(ct *Contract, args []TV, vals []ssa.Value) {
	idx := -1
	for i, p := range ct.Params {
		if p.Name == ct.Calls {
			idx = i
		}
	}
	if idx < 0 || idx >= len(vals) {
		f.havocAll()
		return
	}
	mc, ok := vals[idx].(*ssa.MakeClosure)
	var fn *ssa.Function
	if ok {
		fn, _ = mc.Fn.(*ssa.Function)
	} else if fv, ok := vals[idx].(*ssa.Function); ok {
		fn = fv
	}
	if fn == nil {
		f.havocAll()
		return
	}
	c2 := f.g.contractFor(fn)
	if c2 == nil || c2.AssignsAll {
		f.havocAll()
		return
	}
	f.trusted["extern "+ct.Key+" invokes "+fn.Name()+" only with arguments satisfying its requires; its effect is that closure's assigns set"] = true
	env := f.baseEnv()
	env.pkg = c2.Pkg
	env.st = f.st
	env.old = f.st
	for _, p := range fn.Params {
		tv := f.tv(f.freshConst("cbarg", f.sorts.sortOf(p.Type())), p.Type())
		env.vars[p.Name()] = tv
	}
	if ok {
		for i, fv := range fn.FreeVars {
			b := mc.Bindings[i]
			if _, isPtr := b.Type().Underlying().(*types.Pointer); isPtr {
				loc := f.resolveLoc(b)
				env.vars[fv.Name()] = f.tv(f.loadLoc(loc, f.st), loc.ty)
			}
		}
	}
	for _, a := range c2.Assigns {
		for _, tg := range f.assignTargets(env, a.E) {
			f.havocTarget(tg)
		}
	}
	for _, sc := range c2.Sets {
		name := ""
		switch tg := sc.Target.(type) {
		case SIdent:
			name = tg.Name
		case SIndex:
			if id, ok := tg.X.(SIdent); ok {
				name = id.Name
			}
		}
		if h, _, ok := f.ghostHeap(name); ok {
			f.havocTarget(target{heap: h, whole: true})
		}
	}
}

func (f *FnVC) applyContract(ct *Contract, callee *ssa.Function, sig *types.Signature, args []TV, v ssa.Value, pos token.Pos, name string) {
	short := strings.TrimPrefix(name, f.g.modPath+"/")
	if callee != nil && f.fn != nil && f.isGhostLemma(f.fn) {
		// ghost lemmas: a recursive call is the induction hypothesis, so the recursion must be well-founded - some
		// integer parameter strictly decreases and stays non-negative; calls to other lemmas may only go to lemmas
		// declared EARLIER in the file (no cycles)
		if callee == f.fn {
			var alts []string
			for i, p := range callee.Params {
				if i < len(args) && args[i].Sort == "Int" {
					if pv, ok := f.paramTV[p.Name()]; ok && pv.Sort == "Int" {
						alts = append(alts, sAnd("(<= 0 "+args[i].T+")", "(< "+args[i].T+" "+pv.T+")"))
					}
				}
			}
			f.oblige("lemma.decreases", "recursive call of the lemma is on a smaller non-negative integer argument", sOr(alts...), pos)
		} else if f.isGhostLemma(callee) && callee.Pos() >= f.fn.Pos() {
			f.oblige("lemma.order", "a lemma only uses lemmas declared before it ("+callee.Name()+")", "false", pos)
		}
	}
	env := f.baseEnv()
	if ct.Pkg != "" {
		env.pkg = ct.Pkg
	}
	env.lazy = nil
	if mc := curClosure; mc != nil && callee != nil && len(callee.FreeVars) == len(mc.Bindings) {
		env.lazy = func(name string, st *State) (TV, bool) {
			for i, fv := range callee.FreeVars {
				if fv.Name() == name {
					if _, isPtr := mc.Bindings[i].Type().Underlying().(*types.Pointer); isPtr {
						loc := f.resolveLoc(mc.Bindings[i])
						return f.tv(f.loadLoc(loc, st), loc.ty), true
					}
				}
			}
			return TV{}, false
		}
	}
	// parameter names
	if callee != nil && len(callee.Params) == len(args) && !ct.Extern {
		for i, p := range callee.Params {
			env.vars[p.Name()] = args[i]
		}
		f.checkFuncArgs(callee, pos)
	} else if callee != nil && !ct.Extern && callee.Signature != nil {
		// body not loaded (package is a dependency): parameter names from the signature
		var names []string
		if rv := callee.Signature.Recv(); rv != nil {
			names = append(names, rv.Name())
		}
		ps := callee.Signature.Params()
		for i := 0; i < ps.Len(); i++ {
			names = append(names, ps.At(i).Name())
		}
		if len(names) == len(args) {
			for i, n := range names {
				if n != "" && n != "_" {
					env.vars[n] = args[i]
				}
			}
		}
	}
	if callee == nil && sig != nil && !ct.Extern {
		// call through a function value: parameter names of the function type
		ps := sig.Params()
		if ps.Len() == len(args) {
			for i := 0; i < ps.Len(); i++ {
				if n := ps.At(i).Name(); n != "" && n != "_" {
					if _, dup := env.vars[n]; !dup {
						env.vars[n] = args[i]
					}
				}
			}
		}
	}
	for i := range ct.Params {
		if i < len(args) && ct.Params[i].Name != "" {
			a := args[i]
			env.vars[ct.Params[i].Name] = a
		}
	}
	for i, a := range args {
		env.vars[fmt.Sprintf("arg%d", i)] = a
	}
	if callee == nil && selfVal.T != "" {
		env.vars["self"] = selfVal
	}
	env.st = f.st
	env.old = f.st
	env.oldVars = env.vars
	if ct.Extern || ct.Trusted {
		f.trusted["contract assumed: "+short] = true
	}
	for _, r := range ct.Requires {
		f.oblige("pre", short+" requires "+r.Text, f.trBool(env, r.E), pos)
	}
	if ct.Pure {
		res := f.pureApp(ct, args, sig)
		f.bindResults(v, sig, res, nil)
		if ct.Fresh && len(res) > 0 {
			// a pure function returning new memory: the reference was not allocated at function entry (the same
			// application always denotes the same reference, so the bound is relative to entry, not to this call)
			r := res[0].T
			if res[0].Sort == sliceSort {
				r = "(s_ref " + r + ")"
			}
			f.bumpNextref()
			f.gfact(sOr(sEq(r, "0"), sAnd("(>= "+r+" "+f.root.get("$nextref")+")", "(< "+r+" "+f.st.get("$nextref")+")", "(> "+r+" 0)")))
		}
		f.assumeExternEnsures(ct, args, res, f.st)
		return
	}
	pre := f.st
	f.st = f.st.child()
	// the callee may allocate: advance the allocation counter first, so that heap versions created by the
	// havoc below are known to hold references allocated up to the post-call counter
	f.bumpNextref()
	// havoc the assigns set
	if ct.AssignsAll {
		f.havocAll()
	}
	for _, a := range ct.Assigns {
		for _, tg := range f.assignTargets(env, a.E) {
			f.havocTarget(tg)
		}
	}
	if ct.Calls != "" {
		f.applyCalls(ct, args, argVals)
	}
	if !ct.HasAssign && ct.Extern && !ct.NoHavoc {
		// extern with no frame: treat like an unspecified extern
		pk := ""
		if callee != nil && callee.Pkg != nil {
			pk = callee.Pkg.Pkg.Path()
		}
		if !purePkgs[pk] {
			f.havocArgsTV(args)
		}
	}
	var given []TV
	out := f.bindResults(v, sig, given, nil)
	post := f.baseEnv()
	post.pkg = env.pkg
	post.lazy = env.lazy
	for k, val := range env.vars {
		post.vars[k] = val
	}
	post.st = f.st
	post.old = pre
	post.oldVars = env.vars
	resNames := sig.Results()
	for i, r := range out {
		if n := resNames.At(i).Name(); n != "" && n != "_" {
			if _, clash := post.vars[n]; !clash {
				post.vars[n] = r
			}
		}
		if i < len(ct.Results) && ct.Results[i].Name != "" {
			post.vars[ct.Results[i].Name] = r
		}
		post.vars[fmt.Sprintf("result%d", i)] = r
	}
	if len(out) == 1 {
		post.vars["result"] = out[0]
	}
	if ct.Fresh && len(out) > 0 {
		r := out[0].T
		if out[0].Sort == sliceSort {
			r = "(s_ref " + r + ")"
		}
		// a result declared fresh is nil or newly allocated
		f.gfact(sOr(sEq(r, "0"), sAnd("(>= "+r+" "+pre.get("$nextref")+")", "(< "+r+" "+f.st.get("$nextref")+")", "(> "+r+" 0)")))
	}
	// ghost updates: evaluated with pre-state ghosts (old) and the results; applied to the post state
	for _, sc := range ct.Sets {
		f.applySet(post, pre, sc)
	}
	for _, e := range ct.Ensures {
		if id, ok := e.E.(SIdent); ok && id.Name == "nopanic" {
			continue
		}
		if e.Tag == "local" {
			continue // proved for the callee, not handed to callers (keeps callers' queries small)
		}
		if e.Tag == "assumed" && e.Prop != "" && f.g.curProp != "" && !propListed(e.Prop, f.g.curProp) {
			continue // an assumption made for another property's check: not needed here (fewer facts is always sound)
		}
		f.gfact(f.trBool(post, e.E))
	}
}

// applySet performs a ghost update  g = e  or  g[i] = e  on the current state.
func (f *FnVC) applySet(env *Env, pre *State, sc SetClause) {
	val := f.trExpr(env, sc.Value)
	switch tg := sc.Target.(type) {
	case SIdent:
		h, _, ok := f.ghostHeap(tg.Name)
		if !ok {
			sfail("sets: %s is not a ghost variable", tg.Name)
		}
		c := f.freshConst("gh_"+tg.Name, f.heapSort[h])
		f.gfact(sEq(c, val.T))
		f.setHeap(h, c)
		env.st = f.st
	case SIndex:
		id, ok := tg.X.(SIdent)
		if !ok {
			sfail("sets: unsupported target %s", sexprString(sc.Target))
		}
		h, _, ok := f.ghostHeap(id.Name)
		if !ok {
			sfail("sets: %s is not a ghost variable", id.Name)
		}
		idx := f.trExpr(env, tg.I)
		f.setHeap(h, sStore(f.st.get(h), idx.T, val.T))
		env.st = f.st
	default:
		sfail("sets: unsupported target %s", sexprString(sc.Target))
	}
}

func (f *FnVC) havocArgsTV(args []TV) { f.havocArgs(nil, args) }

// ---------- assigns targets ----------

type target struct {
	heap  string
	whole bool
	ref   string
}

func (f *FnVC) assignTargets(env *Env, e SExpr) []target {
	switch x := e.(type) {
	case SIdent:
		if h, _, ok := f.ghostHeap(x.Name); ok {
			return []target{{heap: h, whole: true}}
		}
		if p, ok := f.g.ssaPkgs[env.pkg]; ok {
			if m, ok := p.Members[x.Name]; ok {
				if g, ok := m.(*ssa.Global); ok {
					return []target{{heap: f.globalHeap(g), whole: true}}
				}
			}
		}
		sfail("assigns: unknown location %s", x.Name)
	case SField:
		// pkg.Type.field (whole heap)
		if q, ok := x.X.(SField); ok {
			if pk, ok := q.X.(SIdent); ok {
				if _, isVar := f.lookupIdent(env, pk.Name); !isVar {
					if ty := f.g.resolveType(pk.Name+"."+q.Name, env.pkg, f.pkgPath()); ty != nil {
						if st, ok := ty.Underlying().(*types.Struct); ok {
							var out []target
							for i := 0; i < st.NumFields(); i++ {
								if x.Name == "*" || st.Field(i).Name() == x.Name {
									h, _ := f.fieldHeap(ty, i)
									out = append(out, target{heap: h, whole: true})
								}
							}
							if len(out) > 0 {
								return out
							}
						}
					} else if f.g.pkgNamed(pk.Name) == nil {
						// the package is not part of this run: no code in scope can touch that type's fields
						return nil
					}
				}
			}
		}
		// Type.field  (whole heap)   |  expr.field  |  expr.*
		if id, ok := x.X.(SIdent); ok {
			if _, isVar := f.lookupIdent(env, id.Name); !isVar {
				if ty := f.g.resolveType(id.Name, env.pkg, f.pkgPath()); ty != nil {
					st, ok := ty.Underlying().(*types.Struct)
					if !ok {
						sfail("assigns: %s is not a struct type", id.Name)
					}
					var out []target
					for i := 0; i < st.NumFields(); i++ {
						if x.Name == "*" || st.Field(i).Name() == x.Name {
							h, _ := f.fieldHeap(ty, i)
							out = append(out, target{heap: h, whole: true})
						}
					}
					if len(out) == 0 {
						sfail("assigns: no field %s in %s", x.Name, id.Name)
					}
					return out
				}
				// pkg.Global
				for _, p := range f.g.allPkgs {
					if p.Types != nil && p.Types.Name() == id.Name {
						if sp, ok := f.g.ssaPkgs[p.Types.Path()]; ok {
							if m, ok := sp.Members[x.Name]; ok {
								if g, ok := m.(*ssa.Global); ok {
									return []target{{heap: f.globalHeap(g), whole: true}}
								}
							}
						}
					}
				}
			}
		}
		a := f.trExpr(env, x.X)
		pt, ok := a.Ty.Underlying().(*types.Pointer)
		if !ok {
			sfail("assigns: %s is not a pointer", sexprString(x.X))
		}
		st, ok := pt.Elem().Underlying().(*types.Struct)
		if !ok {
			sfail("assigns: %s does not point to a struct", sexprString(x.X))
		}
		var out []target
		for i := 0; i < st.NumFields(); i++ {
			if x.Name == "*" || st.Field(i).Name() == x.Name {
				h, _ := f.fieldHeap(pt.Elem(), i)
				out = append(out, target{heap: h, ref: a.T})
			}
		}
		if len(out) == 0 {
			sfail("assigns: no field %s", x.Name)
		}
		return out
	case SIndex:
		a := f.trExpr(env, x.X)
		switch u := a.Ty.Underlying().(type) {
		case *types.Slice:
			return []target{{heap: f.elemHeap(u.Elem()), ref: "(s_ref " + a.T + ")"}}
		case *types.Pointer:
			if at, ok := u.Elem().Underlying().(*types.Array); ok {
				return []target{{heap: f.elemHeap(at.Elem()), ref: a.T}}
			}
		case *types.Map:
			mv, md := f.mapHeaps(u)
			return []target{{heap: mv, ref: a.T}, {heap: md, ref: a.T}}
		}
		sfail("assigns: cannot take elements of %s", a.Ty)
	case SCall:
		if id, ok := x.Fun.(SIdent); ok && id.Name == "deref" {
			a := f.trExpr(env, x.Args[0])
			pt := a.Ty.Underlying().(*types.Pointer)
			return []target{{heap: f.cellHeap(pt.Elem()), ref: a.T}}
		}
		if id, ok := x.Fun.(SIdent); ok && id.Name == "mapsOf" {
			ty := f.g.resolveType(sexprString(x.Args[0]), env.pkg, f.pkgPath())
			mt, ok := ty.(*types.Map)
			if ty == nil || !ok {
				sfail("assigns: mapsOf needs a map type")
			}
			mv, md := f.mapHeaps(mt)
			return []target{{heap: mv, whole: true}, {heap: md, whole: true}}
		}
		if id, ok := x.Fun.(SIdent); ok && id.Name == "elems" {
			// elems(T): whole element heap of type T
			ty := f.g.resolveType(sexprString(x.Args[0]), env.pkg, f.pkgPath())
			if ty == nil {
				sfail("assigns: unknown type in elems()")
			}
			return []target{{heap: f.elemHeap(ty), whole: true}}
		}
	}
	sfail("assigns: unsupported location %s", sexprString(e))
	return nil
}

func (f *FnVC) havocTarget(tg target) {
	so := f.heapSort[tg.heap]
	if tg.whole {
		f.setHeap(tg.heap, f.freshConst("hv_"+tg.heap, so))
		return
	}
	// (Array Int X): havoc one index
	inner := strings.TrimSuffix(strings.TrimPrefix(so, "(Array Int "), ")")
	f.setHeap(tg.heap, sStore(f.st.get(tg.heap), tg.ref, f.freshConst("hv", inner)))
}

// ---------- frame obligations (callee side) ----------

func (f *FnVC) frameTargets() (wholeOK map[string]bool, allowed map[string][]target) {
	allowed = map[string][]target{}
	wholeOK = map[string]bool{}
	if f.c == nil {
		return
	}
	saved := f.cur
	f.cur = nil
	env := f.entryEnv()
	for _, a := range f.c.Assigns {
		for _, tg := range f.assignTargets(env, a.E) {
			if tg.whole {
				wholeOK[tg.heap] = true
			} else {
				allowed[tg.heap] = append(allowed[tg.heap], tg)
			}
		}
	}
	for _, sc := range f.c.Sets {
		var name string
		switch tg := sc.Target.(type) {
		case SIdent:
			name = tg.Name
		case SIndex:
			if id, ok := tg.X.(SIdent); ok {
				name = id.Name
			}
		}
		if h, _, ok := f.ghostHeap(name); ok {
			wholeOK[h] = true
		}
	}
	f.cur = saved
	return
}

// frameCond: heap term H agrees with the entry heap outside the allowed targets (for objects allocated at entry).
func (f *FnVC) frameCond(h, H string, allowed []target, nr0 string) string {
	so := f.heapSort[h]
	init := f.root.get(h)
	if H == init {
		return "true"
	}
	if strings.HasPrefix(so, "(Array Int ") && !strings.HasPrefix(h, "G_") && !strings.HasPrefix(h, "Gh_") {
		var ex []string
		for _, tg := range allowed {
			ex = append(ex, "(= r "+tg.ref+")")
		}
		return "(forall ((r Int)) (=> (and (< 0 r) (< r " + nr0 + ") " + sNot(sOr(ex...)) + ") (= (select " + H + " r) (select " + init + " r))))"
	}
	return sEq(H, init)
}

func (f *FnVC) frameObligations() {
	if f.c == nil || f.c.AssignsAll {
		return
	}
	written := map[string]bool{}
	for _, m := range f.bwrites {
		for h := range m {
			written[h] = true
		}
	}
	wholeOK, allowed := f.frameTargets()
	nr0 := f.root.get("$nextref")
	for _, h := range sortedKeys(written) {
		if h == "$nextref" || wholeOK[h] || strings.HasPrefix(h, "Gh_$") {
			continue
		}
		for i, r := range f.rets {
			final := r.st.get(h)
			cond := f.frameCond(h, final, allowed[h], nr0)
			if cond == "true" {
				continue
			}
			f.cur = nil
			o := &Obl{ID: len(f.obls), Fn: f.key, Kind: "frame", Text: fmt.Sprintf("only the assigns set is written: %s unchanged elsewhere (return %d)", h, i+1), Cond: sImp(r.reach, cond), Pos: f.posStr(r.pos), Assumed: false}
			f.obls = append(f.obls, o)
		}
	}
}

// ---------- builtins ----------

func (f *FnVC) builtin(v ssa.Value, b *ssa.Builtin, c *ssa.CallCommon, pos token.Pos) {
	switch b.Name() {
	case "len":
		a := f.val(c.Args[0])
		switch {
		case a.Sort == sliceSort:
			f.define(v, "(s_len "+a.T+")")
		case a.Sort == "Str":
			f.define(v, "(slen "+a.T+")")
		default:
			switch u := c.Args[0].Type().Underlying().(type) {
			case *types.Map:
				_, md := f.mapHeaps(u)
				tv := f.val(v)
				f.fact(sEq(tv.T, sIte("(= "+a.T+" 0)", "0", f.mapcard(sSel(f.st.get(md), a.T), md))))
				f.fact("(>= " + tv.T + " 0)")
			case *types.Pointer:
				if at, ok := u.Elem().Underlying().(*types.Array); ok {
					f.define(v, fmt.Sprint(at.Len()))
				}
			case *types.Array:
				f.define(v, fmt.Sprint(u.Len()))
			default:
				tv := f.val(v)
				f.fact("(>= " + tv.T + " 0)")
			}
		}
	case "cap":
		a := f.val(c.Args[0])
		if a.Sort == sliceSort {
			f.define(v, "(s_cap "+a.T+")")
		} else {
			f.fact("(>= " + f.val(v).T + " 0)")
		}
	case "append":
		f.appendBuiltin(v, c, pos)
	case "copy":
		f.copyBuiltin(v, c)
	case "delete":
		m := f.val(c.Args[0])
		k := f.val(c.Args[1])
		mt := c.Args[0].Type().Underlying().(*types.Map)
		_, md := f.mapHeaps(mt)
		// delete on nil map is a no-op
		f.setHeap(md, sIte("(= "+m.T+" 0)", f.st.get(md), sStore(f.st.get(md), m.T, sStore(sSel(f.st.get(md), m.T), k.T, "false"))))
	case "print", "println":
	case "close":
	case "min", "max":
		a, b2 := f.val(c.Args[0]), f.val(c.Args[1])
		op := "<="
		if b.Name() == "max" {
			op = ">="
		}
		f.define(v, sIte("("+op+" "+a.T+" "+b2.T+")", a.T, b2.T))
	case "recover":
		f.val(v)
	case "ssa:wrapnilchk":
		a := f.val(c.Args[0])
		f.oblige("panic.nil", "nil receiver in method wrapper", "(not (= "+a.T+" 0))", pos)
		f.define(v, a.T)
	default:
		f.warn("unsupported builtin %s", b.Name())
		if v != nil {
			f.val(v)
		}
	}
}

func (f *FnVC) appendBuiltin(v ssa.Value, c *ssa.CallCommon, pos token.Pos) {
	s := f.val(c.Args[0])
	t := f.val(c.Args[1])
	sl := c.Args[0].Type().Underlying().(*types.Slice)
	es := f.sorts.sortOf(sl.Elem())
	eh := f.elemHeap(sl.Elem())
	E := f.st.get(eh)
	n := "(s_len " + t.T + ")"
	tsel := func(k string) string { return sSel(sSel(E, "(s_ref "+t.T+")"), sIdx("(s_off "+t.T+")", k)) }
	if t.Sort == "Str" {
		n = "(slen " + t.T + ")"
		tsel = func(k string) string { return sApp("sat", t.T, k) }
	}
	ln := "(s_len " + s.T + ")"
	fits := f.freshConst("fits", "Bool")
	f.fact(sEq(fits, "(<= (+ "+ln+" "+n+") (s_cap "+s.T+"))"))
	newref := f.freshConst("appref", "Int")
	nr := f.st.get("$nextref")
	f.fact(sEq(newref, nr))
	f.st.set("$nextref", "(+ "+nr+" 1)")
	f.recordWrite("$nextref")
	R := f.freshConst("appR", "Int")
	O := f.freshConst("appO", "Int")
	f.fact(sEq(R, sIte(fits, "(s_ref "+s.T+")", newref)))
	f.fact(sEq(O, sIte(fits, "(s_off "+s.T+")", "0")))
	A := f.freshConst("appA", "(Array Int "+es+")")
	oldArr := sSel(E, "(s_ref "+s.T+")")
	// contents of the target backing array after the append
	zero := f.sorts.zeroOf(sl.Elem())
	body := sIte(sAnd("(<= (+ "+O+" "+ln+") k)", "(< k (+ "+O+" "+ln+" "+n+"))"),
		tsel("(- k (+ "+O+" "+ln+"))"),
		sIte(fits, sSel(oldArr, "k"), sIte(sAnd("(<= 0 k)", "(< k "+ln+")"), sSel(oldArr, sIdx("(s_off "+s.T+")", "k")), zero)))
	f.qfacts = append(f.qfacts, "(forall ((k Int)) (! (= (select "+A+" k) "+body+") :pattern ((select "+A+" k))))")
	// the old elements are preserved (consequence of the definition above, stated with idx triggers)
	f.qfacts = append(f.qfacts, "(forall ((k Int)) (! (=> (and (<= 0 k) (< k "+ln+")) (= (select "+A+" "+sIdx(O, "k")+") (select "+oldArr+" "+sIdx("(s_off "+s.T+")", "k")+"))) :pattern ((select "+A+" "+sIdx(O, "k")+")) :pattern ((select "+oldArr+" "+sIdx("(s_off "+s.T+")", "k")+"))))")
	// ground instance for the first appended element (gives quantified goals a term to instantiate on)
	f.fact(sImp("(>= "+n+" 1)", sEq(sSel(A, sIdx(O, ln)), tsel("0"))))
	f.setHeap(eh, sStore(E, R, A))
	newcap := f.freshConst("appcap", "Int")
	f.fact(sEq(newcap, sIte(fits, "(s_cap "+s.T+")", newcap)))
	f.fact("(>= " + newcap + " (+ " + ln + " " + n + "))")
	f.define(v, sApp("mk_slice", R, O, "(+ "+ln+" "+n+")", newcap))
}

func (f *FnVC) copyBuiltin(v ssa.Value, c *ssa.CallCommon) {
	d := f.val(c.Args[0])
	s := f.val(c.Args[1])
	sl := c.Args[0].Type().Underlying().(*types.Slice)
	es := f.sorts.sortOf(sl.Elem())
	eh := f.elemHeap(sl.Elem())
	E := f.st.get(eh)
	sn := "(s_len " + s.T + ")"
	ssel := func(k string) string { return sSel(sSel(E, "(s_ref "+s.T+")"), sIdx("(s_off "+s.T+")", k)) }
	if s.Sort == "Str" {
		sn = "(slen " + s.T + ")"
		ssel = func(k string) string { return sApp("sat", s.T, k) }
	}
	n := f.freshConst("copyn", "Int")
	f.fact(sEq(n, sIte("(<= (s_len "+d.T+") "+sn+")", "(s_len "+d.T+")", sn)))
	A := f.freshConst("copyA", "(Array Int "+es+")")
	oldArr := sSel(E, "(s_ref "+d.T+")")
	body := sIte(sAnd("(<= (s_off "+d.T+") k)", "(< k (+ (s_off "+d.T+") "+n+"))"), ssel("(- k (s_off "+d.T+"))"), sSel(oldArr, "k"))
	f.qfacts = append(f.qfacts, "(forall ((k Int)) (! (= (select "+A+" k) "+body+") :pattern ((select "+A+" k))))")
	f.setHeap(eh, sStore(E, "(s_ref "+d.T+")", A))
	if v != nil {
		f.define(v, n)
	}
}

// atomicOp models sync/atomic operations on a location as sequential load/store (the only semantics a
// sequential calculus has); the instruction is remembered as an atomic access for the permission scan.
func (f *FnVC) atomicOp(v ssa.Value, callee *ssa.Function, c *ssa.CallCommon, pos token.Pos) bool {
	name := callee.Name()
	if len(c.Args) == 0 || callee.Signature.Recv() != nil {
		return false
	}
	if _, ok := c.Args[0].Type().Underlying().(*types.Pointer); !ok {
		return false
	}
	addr := c.Args[0]
	switch {
	case strings.HasPrefix(name, "Add") && len(c.Args) == 2:
		f.nilCheckAddr(addr, pos)
		loc := f.resolveLoc(addr)
		old := f.loadLoc(loc, f.st)
		nv := f.wrap("(+ "+old+" "+f.val(c.Args[1]).T+")", loc.ty)
		c1 := f.freshConst("atomic", "Int")
		f.fact(sEq(c1, nv))
		f.storeLoc(loc, c1)
		if v != nil {
			f.define(v, c1)
		}
		return true
	case strings.HasPrefix(name, "Load") && len(c.Args) == 1:
		f.nilCheckAddr(addr, pos)
		loc := f.resolveLoc(addr)
		if v != nil {
			f.define(v, f.loadLoc(loc, f.st))
			f.typeFacts(f.val(v), true)
		}
		return true
	case strings.HasPrefix(name, "Store") && len(c.Args) == 2:
		f.nilCheckAddr(addr, pos)
		f.storeLoc(f.resolveLoc(addr), f.val(c.Args[1]).T)
		return true
	}
	return false
}
