package main

import (
	"fmt"
	"go/types"
	"math/big"
	"sort"
	"strings"
)

// ---------- SMT helpers ----------

func sAnd(xs ...string) string {
	var ys []string
	for _, x := range xs {
		if x == "true" || x == "" {
			continue
		}
		if x == "false" {
			return "false"
		}
		ys = append(ys, x)
	}
	switch len(ys) {
	case 0:
		return "true"
	case 1:
		return ys[0]
	}
	return "(and " + strings.Join(ys, " ") + ")"
}
func sOr(xs ...string) string {
	var ys []string
	for _, x := range xs {
		if x == "false" || x == "" {
			continue
		}
		if x == "true" {
			return "true"
		}
		ys = append(ys, x)
	}
	switch len(ys) {
	case 0:
		return "false"
	case 1:
		return ys[0]
	}
	return "(or " + strings.Join(ys, " ") + ")"
}
func sNot(x string) string {
	if x == "true" {
		return "false"
	}
	if x == "false" {
		return "true"
	}
	return "(not " + x + ")"
}
func sImp(a, b string) string {
	if a == "true" {
		return b
	}
	if b == "true" || a == "false" {
		return "true"
	}
	return "(=> " + a + " " + b + ")"
}
func sEq(a, b string) string { return "(= " + a + " " + b + ")" }
func sIte(c, a, b string) string {
	if c == "true" {
		return a
	}
	if c == "false" {
		return b
	}
	return "(ite " + c + " " + a + " " + b + ")"
}
func sSel(a, i string) string      { return "(select " + a + " " + i + ")" }
func sStore(a, i, v string) string { return "(store " + a + " " + i + " " + v + ")" }
func sApp(f string, args ...string) string {
	if len(args) == 0 {
		return f
	}
	return "(" + f + " " + strings.Join(args, " ") + ")"
}
func sInt(n int64) string {
	if n < 0 {
		return fmt.Sprintf("(- %d)", -n)
	}
	return fmt.Sprint(n)
}
func sBig(n *big.Int) string {
	if n.Sign() < 0 {
		return "(- " + new(big.Int).Neg(n).String() + ")"
	}
	return n.String()
}
func sAdd(a, b string) string {
	if b == "0" {
		return a
	}
	if a == "0" {
		return b
	}
	return "(+ " + a + " " + b + ")"
}
// sIdx: position of element i of a slice with offset off in its backing array. An uninterpreted function with
// the axiom idx(o,i) = o+i, so that quantified facts about x[i] have an arithmetic-free trigger.
func sIdx(off, i string) string { return "(idx " + off + " " + i + ")" }

func sSub(a, b string) string {
	if b == "0" {
		return a
	}
	return "(- " + a + " " + b + ")"
}

func sanitize(s string) string {
	var sb strings.Builder
	for _, c := range s {
		switch {
		case c >= 'a' && c <= 'z', c >= 'A' && c <= 'Z', c >= '0' && c <= '9', c == '_':
			sb.WriteRune(c)
		case c == '.' || c == '/':
			sb.WriteRune('_')
		case c == '*':
			sb.WriteString("P")
		case c == '[':
			sb.WriteString("L")
		case c == ']':
			sb.WriteString("R")
		default:
			sb.WriteString(fmt.Sprintf("x%02x", c))
		}
	}
	return sb.String()
}

// ---------- sorts ----------

// Sorts keeps declared datatypes for struct types (shared per SMT script).
type Sorts struct {
	decls   []string          // datatype declarations in dependency order
	structs map[string]*DT    // by sort name
	byType  map[string]string // types.Type string -> sort name
	anon    int
}

type DT struct {
	Name   string
	Fields []DTField
	T      *types.Struct
}
type DTField struct {
	Name string // go field name
	Acc  string // accessor function
	Sort string
	Ty   types.Type
}

func newSorts() *Sorts {
	return &Sorts{structs: map[string]*DT{}, byType: map[string]string{}}
}

const sliceSort = "Slice"

func typeKey(t types.Type) string {
	return types.TypeString(t, func(p *types.Package) string { return p.Path() })
}

func shortTypeName(t types.Type) string {
	s := types.TypeString(t, func(p *types.Package) string { return p.Name() })
	return sanitize(s)
}

func (so *Sorts) sortOf(t types.Type) string {
	if t == nil {
		return "Int"
	}
	switch u := t.Underlying().(type) {
	case *types.Basic:
		switch {
		case u.Info()&types.IsBoolean != 0:
			return "Bool"
		case u.Info()&types.IsInteger != 0:
			return "Int"
		case u.Info()&types.IsFloat != 0:
			return "Real"
		case u.Info()&types.IsString != 0:
			return "Str"
		case u.Kind() == types.UnsafePointer || u.Kind() == types.UntypedNil:
			return "Int"
		}
		return "Int"
	case *types.Pointer, *types.Map, *types.Chan, *types.Signature, *types.Interface:
		return "Int"
	case *types.Slice:
		return sliceSort
	case *types.Array:
		return "(Array Int " + so.sortOf(u.Elem()) + ")"
	case *types.Struct:
		return so.structSort(t, u)
	case *types.Tuple:
		return "Int"
	}
	return "Int"
}

func (so *Sorts) structSort(t types.Type, u *types.Struct) string {
	key := typeKey(t)
	if s, ok := so.byType[key]; ok {
		return s
	}
	var name string
	if n, ok := t.(*types.Named); ok {
		name = "S_" + sanitize(n.Obj().Pkg().Name()+"_"+n.Obj().Name())
		if _, dup := so.structs[name]; dup {
			name = "S_" + sanitize(n.Obj().Pkg().Path()+"_"+n.Obj().Name())
		}
	} else {
		so.anon++
		name = fmt.Sprintf("S_anon%d", so.anon)
	}
	so.byType[key] = name
	dt := &DT{Name: name, T: u}
	so.structs[name] = dt
	for i := 0; i < u.NumFields(); i++ {
		f := u.Field(i)
		fs := so.sortOf(f.Type())
		acc := name + "_" + sanitize(f.Name())
		if f.Name() == "_" {
			acc = fmt.Sprintf("%s_blank%d", name, i)
		}
		dt.Fields = append(dt.Fields, DTField{Name: f.Name(), Acc: acc, Sort: fs, Ty: f.Type()})
	}
	var fl []string
	for _, f := range dt.Fields {
		fl = append(fl, "("+f.Acc+" "+f.Sort+")")
	}
	if len(fl) == 0 {
		so.decls = append(so.decls, fmt.Sprintf("(declare-datatypes ((%s 0)) (((mk_%s))))", name, name))
	} else {
		so.decls = append(so.decls, fmt.Sprintf("(declare-datatypes ((%s 0)) (((mk_%s %s))))", name, name, strings.Join(fl, " ")))
	}
	return name
}

func (so *Sorts) dtOf(t types.Type) *DT {
	u, ok := t.Underlying().(*types.Struct)
	if !ok {
		return nil
	}
	name := so.structSort(t, u)
	return so.structs[name]
}

// zero value term of a Go type
func (so *Sorts) zeroOf(t types.Type) string {
	switch u := t.Underlying().(type) {
	case *types.Basic:
		switch {
		case u.Info()&types.IsBoolean != 0:
			return "false"
		case u.Info()&types.IsFloat != 0:
			return "0.0"
		case u.Info()&types.IsString != 0:
			return "str_empty"
		}
		return "0"
	case *types.Slice:
		return "(mk_slice 0 0 0 0)"
	case *types.Array:
		if so.sortOf(u.Elem()) == "Str" {
			return "zarr_Str" // cvc5 accepts only values in constant arrays; str_empty is an uninterpreted constant
		}
		return "((as const " + so.sortOf(t) + ") " + so.zeroOf(u.Elem()) + ")"
	case *types.Struct:
		dt := so.dtOf(t)
		var zs []string
		for _, f := range dt.Fields {
			zs = append(zs, so.zeroOf(f.Ty))
		}
		return sApp("mk_"+dt.Name, zs...)
	}
	return "0"
}

// intRange returns the bounds of an integer type; ok=false for non-integer types.
func intRange(t types.Type) (lo, hi *big.Int, ok bool) {
	b, isB := t.Underlying().(*types.Basic)
	if !isB || b.Info()&types.IsInteger == 0 {
		return nil, nil, false
	}
	bits := 64
	signed := b.Info()&types.IsUnsigned == 0
	switch b.Kind() {
	case types.Int8, types.Uint8:
		bits = 8
	case types.Int16, types.Uint16:
		bits = 16
	case types.Int32, types.Uint32:
		bits = 32
	case types.UntypedInt, types.UntypedRune:
		return nil, nil, false
	}
	one := big.NewInt(1)
	if signed {
		hi = new(big.Int).Sub(new(big.Int).Lsh(one, uint(bits-1)), one)
		lo = new(big.Int).Neg(new(big.Int).Lsh(one, uint(bits-1)))
	} else {
		lo = big.NewInt(0)
		hi = new(big.Int).Sub(new(big.Int).Lsh(one, uint(bits)), one)
	}
	return lo, hi, true
}

func intBits(t types.Type) (bits int, signed bool) {
	b, isB := t.Underlying().(*types.Basic)
	if !isB {
		return 64, true
	}
	signed = b.Info()&types.IsUnsigned == 0
	switch b.Kind() {
	case types.Int8, types.Uint8:
		return 8, signed
	case types.Int16, types.Uint16:
		return 16, signed
	case types.Int32, types.Uint32:
		return 32, signed
	}
	return 64, signed
}

func wrapName(t types.Type) string {
	bits, signed := intBits(t)
	if signed {
		return fmt.Sprintf("wrap_i%d", bits)
	}
	return fmt.Sprintf("wrap_u%d", bits)
}

// prelude: fixed declarations
func preludeText() string {
	var sb strings.Builder
	sb.WriteString("(declare-datatypes ((Slice 0)) (((mk_slice (s_ref Int) (s_off Int) (s_len Int) (s_cap Int)))))\n")
	sb.WriteString("(declare-sort Str 0)\n")
	sb.WriteString("(declare-fun slen (Str) Int)\n(declare-fun sat (Str Int) Int)\n(declare-const str_empty Str)\n(assert (= (slen str_empty) 0))\n")
	sb.WriteString("(declare-const zarr_Str (Array Int Str))\n")
	sb.WriteString("(declare-fun scat (Str Str) Str)\n(declare-fun ssub (Str Int Int) Str)\n(declare-fun sfromb ((Array Int Int) Int Int) Str)\n")
	one := big.NewInt(1)
	for _, bits := range []int{8, 16, 32, 64} {
		m := new(big.Int).Lsh(one, uint(bits))
		h := new(big.Int).Lsh(one, uint(bits-1))
		hm1 := new(big.Int).Sub(h, one)
		mm1 := new(big.Int).Sub(m, one)
		fmt.Fprintf(&sb, "(define-fun wrap_u%d ((x Int)) Int (ite (and (<= 0 x) (<= x %s)) x (mod x %s)))\n", bits, mm1, m)
		fmt.Fprintf(&sb, "(define-fun wrap_i%d ((x Int)) Int (ite (and (<= (- %s) x) (<= x %s)) x (- (mod (+ x %s) %s) %s)))\n", bits, h, hm1, h, m, h)
	}
	sb.WriteString("(define-fun tdiv ((a Int) (b Int)) Int (ite (>= a 0) (ite (> b 0) (div a b) (- (div a (- b)))) (ite (> b 0) (- (div (- a) b)) (div (- a) (- b)))))\n")
	sb.WriteString("(define-fun tmod ((a Int) (b Int)) Int (- a (* b (tdiv a b))))\n")
	sb.WriteString("(declare-fun bor (Int Int) Int)\n(declare-fun band (Int Int) Int)\n(declare-fun bxor (Int Int) Int)\n(declare-fun bandnot (Int Int) Int)\n(declare-fun bshl (Int Int) Int)\n(declare-fun bshr (Int Int) Int)\n")
	sb.WriteString("(declare-fun typeof (Int) Int)\n")
	sb.WriteString("(declare-fun idx (Int Int) Int)\n(assert (forall ((o Int) (i Int)) (! (= (idx o i) (+ o i)) :pattern ((idx o i)))))\n")
	return sb.String()
}

func sortedKeys[V any](m map[string]V) []string {
	var ks []string
	for k := range m {
		ks = append(ks, k)
	}
	sort.Strings(ks)
	return ks
}
