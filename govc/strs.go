package main

// String model: uninterpreted sort Str with slen/sat; constructors scat/ssub/sfromb are
// axiomatised by quantified axioms with patterns, included only when a function uses them.
// Extensionality is instantiated at each comparison site (ground pairs).

func (f *FnVC) needStrAxioms() { f.strAx = true }

func (f *FnVC) strCat(a, b string) string {
	f.needStrAxioms()
	if a == "str_empty" {
		return b
	}
	if b == "str_empty" {
		return a
	}
	return sApp("scat", a, b)
}

func (f *FnVC) strSub(s, lo, hi string) string {
	f.needStrAxioms()
	return sApp("ssub", s, lo, hi)
}

func (f *FnVC) strFromBytes(arr, off, ln string) string {
	f.needStrAxioms()
	return sApp("sfromb", arr, off, ln)
}

func (f *FnVC) strExt(a, b string) {
	if a == b {
		return
	}
	k := a + "\x00" + b
	if f.extPairs[k] {
		return
	}
	f.extPairs[k] = true
	f.extList = append(f.extList, [2]string{a, b})
}

func zarrAxiomText() string {
	return "(assert (forall ((i Int)) (! (= (select zarr_Str i) str_empty) :pattern ((select zarr_Str i)))))\n"
}

func strAxiomText() string {
	return `(assert (forall ((a Str) (b Str)) (! (= (slen (scat a b)) (+ (slen a) (slen b))) :pattern ((scat a b)))))
(assert (forall ((a Str) (b Str) (k Int)) (! (=> (and (<= 0 k) (< k (+ (slen a) (slen b)))) (= (sat (scat a b) k) (ite (< k (slen a)) (sat a k) (sat b (- k (slen a)))))) :pattern ((sat (scat a b) k)))))
(assert (forall ((s Str) (i Int) (j Int)) (! (= (slen (ssub s i j)) (ite (and (<= 0 i) (<= i j)) (- j i) 0)) :pattern ((ssub s i j)))))
(assert (forall ((s Str) (i Int) (j Int) (k Int)) (! (=> (and (<= 0 i) (<= 0 k) (< k (- j i))) (= (sat (ssub s i j) k) (sat s (+ i k)))) :pattern ((sat (ssub s i j) k)))))
(assert (forall ((a (Array Int Int)) (o Int) (n Int)) (! (= (slen (sfromb a o n)) (ite (<= 0 n) n 0)) :pattern ((sfromb a o n)))))
(assert (forall ((a (Array Int Int)) (o Int) (n Int) (k Int)) (! (=> (and (<= 0 k) (< k n)) (= (sat (sfromb a o n) k) (select a (+ o k)))) :pattern ((sat (sfromb a o n) k)))))
(assert (forall ((s Str)) (! (>= (slen s) 0) :pattern ((slen s)))))
(assert (forall ((s Str)) (! (=> (= (slen s) 0) (= s str_empty)) :pattern ((slen s)))))
`
}

func (f *FnVC) strExtFacts() []string {
	var out []string
	if !f.strAx {
		return nil
	}
	for _, p := range f.extList {
		a, b := p[0], p[1]
		out = append(out, "(=> (and (= (slen "+a+") (slen "+b+")) (forall ((k Int)) (=> (and (<= 0 k) (< k (slen "+a+"))) (= (sat "+a+" k) (sat "+b+" k))))) (= "+a+" "+b+"))")
	}
	return out
}
