package main

import (
	"bytes"
	"encoding/json"
	"fmt"
	"os"
	"os/exec"
	"path/filepath"
	"strings"
	"time"
)

// Bounded stand-ins: for the few places where the deductive calculus abstracts machine behaviour away
// (float64 treated as reals) a harness in /verif/bounded runs the REAL function of /repo's working tree
// over an explicitly bounded input set. Results are reported separately, labelled bounded, and never
// counted as discharged obligations.
//
// Harness header (comment lines):   // bounded: props C02 C04
//                                   // bounded: pkg route
//                                   // bounded: run TestBoundedWeights
//                                   // bounded: bound <the stated bound>
// Harness output protocol:          BOUNDED-CASES <n>     BOUNDED-FAIL <input> :: <what>
type boundedResult struct {
	Name     string   `json:"name"`
	Bound    string   `json:"bound"`
	Cases    int      `json:"cases"`
	Failures []string `json:"failures"`
	WallS    float64  `json:"wall_s"`
	Level    string   `json:"level"`
}

type boundedHarness struct {
	file, name, pkg, run, bound string
	props                       []string
}

func loadBounded(verif string) []boundedHarness {
	files, _ := filepath.Glob(filepath.Join(verif, "bounded", "*_test.go"))
	var out []boundedHarness
	for _, f := range files {
		b, err := os.ReadFile(f)
		if err != nil {
			continue
		}
		h := boundedHarness{file: f, name: strings.TrimSuffix(filepath.Base(f), "_test.go")}
		for _, l := range strings.Split(string(b), "\n") {
			l = strings.TrimSpace(l)
			if !strings.HasPrefix(l, "// bounded:") {
				continue
			}
			fs := strings.Fields(strings.TrimPrefix(l, "// bounded:"))
			if len(fs) < 2 {
				continue
			}
			switch fs[0] {
			case "props":
				h.props = fs[1:]
			case "pkg":
				h.pkg = fs[1]
			case "run":
				h.run = fs[1]
			case "bound":
				h.bound = strings.Join(fs[1:], " ")
			}
		}
		if h.pkg != "" && h.run != "" {
			out = append(out, h)
		}
	}
	return out
}

func (c *checkCtx) runHarness(h boundedHarness) (string, error) {
	tmp, err := os.MkdirTemp(c.scratch, "bounded")
	if err != nil {
		return "", err
	}
	pkgDir := filepath.Join(c.repo, h.pkg)
	ov := map[string]map[string]string{"Replace": {filepath.Join(pkgDir, "zz_verif_bounded_test.go"): h.file}}
	ob, _ := json.Marshal(ov)
	of := filepath.Join(tmp, "overlay.json")
	os.WriteFile(of, ob, 0o644)
	cmd := exec.Command("go", "test", "-overlay", of, "-vet=off", "-count=1", "-timeout", "600s", "-run", "^"+h.run+"$", "-v", ".")
	cmd.Dir = pkgDir
	cmd.Env = append(os.Environ(), "GOFLAGS=-mod=mod", "GOPROXY=off", "VERIF_TIER="+c.tier)
	var out bytes.Buffer
	cmd.Stdout = &out
	cmd.Stderr = &out
	err = cmd.Run()
	return out.String(), err
}

// runBounded runs the stand-ins registered for the property; returns results and the exit code contribution.
func (c *checkCtx) runBounded() ([]boundedResult, []string, int) {
	var res []boundedResult
	var known []string
	rc := 0
	for _, h := range loadBounded(c.verif) {
		use := false
		for _, p := range h.props {
			if p == c.prop {
				use = true
			}
		}
		if !use {
			continue
		}
		t0 := time.Now()
		out, err := c.runHarness(h)
		r := boundedResult{Name: h.name, Bound: h.bound, Level: "bounded"}
		sawCases := false
		for _, l := range strings.Split(out, "\n") {
			l = strings.TrimSpace(l)
			if strings.HasPrefix(l, "BOUNDED-CASES ") {
				fmt.Sscanf(strings.TrimPrefix(l, "BOUNDED-CASES "), "%d", &r.Cases)
				sawCases = true
			}
			if strings.HasPrefix(l, "BOUNDED-FAIL ") {
				r.Failures = append(r.Failures, strings.TrimPrefix(l, "BOUNDED-FAIL "))
			}
		}
		r.WallS = time.Since(t0).Seconds()
		if !sawCases || r.Cases == 0 {
			// the harness did not run (build failure, renamed function ...): no verdict, never a silent pass
			fmt.Printf("ENGINE-ERROR bounded stand-in %s did not run: %s\n", h.name, truncate(strings.ReplaceAll(out, "\n", " | "), 600))
			_ = err
			rc = 2
			res = append(res, r)
			continue
		}
		reported := 0
		for i, fl := range r.Failures {
			isKnown := false
			for _, k := range c.findings {
				if k.Property == c.prop && k.Status == "open" && k.Function == "bounded:"+h.name && k.Input != "" && strings.HasPrefix(fl, k.Input) {
					known = append(known, fmt.Sprintf("KNOWN-FINDING: property=%s %s", c.prop, k.What))
					isKnown = true
				}
			}
			if isKnown || reported >= 3 {
				continue
			}
			reported++
			os.MkdirAll(c.replayDir, 0o755)
			path := filepath.Join(c.replayDir, fmt.Sprintf("%s_bounded_%s_%d.json", c.prop, h.name, i))
			rec := map[string]interface{}{
				"property": c.prop, "obligation": "bounded stand-in " + h.name + " (" + h.bound + ")", "function": "bounded:" + h.name,
				"kind": "bounded", "status": "failed", "reproduced": true, "input": fl,
				"bounded_file": h.file, "bounded_pkg": h.pkg, "bounded_run": h.run,
				"replay_log": truncate(out, 4000),
			}
			b, _ := json.MarshalIndent(rec, "", " ")
			os.WriteFile(path, b, 0o644)
			fmt.Printf("VIOLATION property=%s replay=%s obligation=%q status=failed\n", c.prop, path, "bounded stand-in "+h.name+" :: "+truncate(fl, 200))
			c.viol++
			if rc == 0 {
				rc = 1
			}
		}
		res = append(res, r)
	}
	return res, known, rc
}
