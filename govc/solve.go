package main

import (
	"bytes"
	"context"
	"fmt"
	"os"
	"os/exec"
	"path/filepath"
	"strings"
	"sync"
	"time"
)

type solverDef struct {
	name string
	args func(file string, timeoutS int, seed int) []string
}

var solvers = []solverDef{
	{"z3-5.1.0", func(file string, t, seed int) []string {
		return []string{"z3-new", fmt.Sprintf("-T:%d", t), fmt.Sprintf("smt.random_seed=%d", seed), fmt.Sprintf("sat.random_seed=%d", seed), file}
	}},
	{"z3-4.8.12", func(file string, t, seed int) []string {
		return []string{"z3", fmt.Sprintf("-T:%d", t), fmt.Sprintf("smt.random_seed=%d", seed), file}
	}},
	{"cvc5-1.0", func(file string, t, seed int) []string {
		return []string{"cvc5", fmt.Sprintf("--tlimit=%d", t*1000), fmt.Sprintf("--seed=%d", seed), file}
	}},
}

type solveResult struct {
	verdict string // unsat, sat, unknown, timeout, error
	solver  string
	ms      int64
	output  string
}

func runSolver(ctx context.Context, sd solverDef, file string, timeoutS, seed int) solveResult {
	args := sd.args(file, timeoutS, seed)
	cctx, cancel := context.WithTimeout(ctx, time.Duration(timeoutS+2)*time.Second)
	defer cancel()
	cmd := exec.CommandContext(cctx, args[0], args[1:]...)
	var out bytes.Buffer
	cmd.Stdout = &out
	cmd.Stderr = &out
	t0 := time.Now()
	_ = cmd.Run()
	ms := time.Since(t0).Milliseconds()
	s := strings.TrimSpace(out.String())
	first := s
	if i := strings.IndexByte(s, '\n'); i >= 0 {
		first = s[:i]
	}
	v := "error"
	switch strings.TrimSpace(first) {
	case "unsat":
		v = "unsat"
	case "sat":
		v = "sat"
	case "unknown":
		v = "unknown"
	case "timeout":
		v = "timeout"
	default:
		if cctx.Err() != nil {
			v = "timeout"
		} else if strings.Contains(s, "timeout") || strings.Contains(s, "interrupted") {
			v = "timeout"
		}
	}
	if v == "unsat" || v == "sat" {
		// z3 prints the verdict and then errors for e.g. get-model after unsat; only errors before the verdict matter
	} else if strings.Contains(first, "(error") {
		v = "error"
	}
	return solveResult{v, sd.name, ms, s}
}

// race runs the solvers on one script; the first definitive answer wins. In "all" mode every
// solver is run to completion and verdicts are compared.
func race(file string, timeoutS, seed int, all bool, only []string) (solveResult, []solveResult) {
	ctx, cancel := context.WithCancel(context.Background())
	defer cancel()
	var use []solverDef
	for _, s := range solvers {
		if len(only) > 0 {
			ok := false
			for _, o := range only {
				if strings.HasPrefix(s.name, o) {
					ok = true
				}
			}
			if !ok {
				continue
			}
		}
		use = append(use, s)
	}
	ch := make(chan solveResult, len(use))
	for _, s := range use {
		go func(s solverDef) { ch <- runSolver(ctx, s, file, timeoutS, seed) }(s)
	}
	var results []solveResult
	var best solveResult
	best.verdict = "unknown"
	for range use {
		r := <-ch
		results = append(results, r)
		if r.verdict == "unsat" || r.verdict == "sat" {
			if best.verdict != "unsat" && best.verdict != "sat" {
				best = r
				if !all {
					cancel()
					return best, results
				}
			} else if best.verdict != r.verdict {
				best = solveResult{verdict: "disagree", solver: best.solver + " vs " + r.solver, output: best.output + "\n--\n" + r.output}
			}
		} else if best.verdict != "unsat" && best.verdict != "sat" && best.verdict != "disagree" {
			if best.output == "" || best.verdict == "error" || r.verdict == "unknown" {
				if !(r.verdict == "error" && best.output != "" && best.verdict != "error") {
					best = r
				}
			}
		}
	}
	return best, results
}

type dischargeOpts struct {
	dir      string
	timeoutS int
	seed     int
	all      bool // thorough: all solvers must agree
	par      int
	sem      chan struct{}
}

// discharge solves all obligations of one function.
func discharge(f *FnVC, o dischargeOpts, stats *runStats) {
	head := f.scriptHead()
	headCover := f.scriptHeadOpt(false)
	sem := o.sem
	if sem == nil {
		sem = make(chan struct{}, o.par)
	}
	var wg sync.WaitGroup
	for _, ob := range f.obls {
		ob := ob
		if ob.Status != "" {
			continue // decided at generation time (contract does not apply)
		}
		wg.Add(1)
		sem <- struct{}{}
		go func() {
			defer wg.Done()
			defer func() { <-sem }()
			script := f.scriptFor(ob, head)
			if ob.Cover {
				script = f.scriptFor(ob, headCover)
			}
			file := filepath.Join(o.dir, fmt.Sprintf("%s_%03d.smt2", sanitize(f.key), ob.ID))
			os.WriteFile(file, []byte(script), 0o644)
			var best solveResult
			if !ob.Cover && ob.SplitTerm == "" && ob.Blk >= 0 && f.fn != nil && len(f.fn.Blocks) > 3 {
				// first attempt on the slice of facts that can influence the obligation's block (sound: fewer assumptions)
				keep := f.ancestors(ob.Blk)
				{
					sfile := filepath.Join(o.dir, fmt.Sprintf("%s_%03d_sl.smt2", sanitize(f.key), ob.ID))
					os.WriteFile(sfile, []byte(f.scriptForSel(ob, f.scriptHeadSel(true, keep, ob), "", keep)), 0o644)
					r := runSolver(context.Background(), solvers[0], sfile, minInt(3, o.timeoutS), o.seed)
					stats.add(r.ms)
					if r.verdict == "unsat" {
						ob.Solver, ob.Ms, ob.Output, ob.Status = r.solver+" (sliced)", r.ms, r.output, "proved"
						return
					}
				}
			}
			if ob.SplitTerm != "" && !ob.Cover {
				// case split: one query per value plus the out-of-range case; all must be unsat
				var cases []string
				for v := ob.SplitLo; v <= ob.SplitHi; v++ {
					cases = append(cases, sEq(ob.SplitTerm, sInt(int64(v))))
				}
				cases = append(cases, sOr("(< "+ob.SplitTerm+" "+sInt(int64(ob.SplitLo))+")", "(> "+ob.SplitTerm+" "+sInt(int64(ob.SplitHi))+")"))
				best = solveResult{verdict: "unsat", solver: "split"}
				var total int64
				for ci, cs := range cases {
					cf := filepath.Join(o.dir, fmt.Sprintf("%s_%03d_c%d.smt2", sanitize(f.key), ob.ID, ci))
					os.WriteFile(cf, []byte(f.scriptForCase(ob, head, cs)), 0o644)
					r := runSolver(context.Background(), solvers[0], cf, minInt(2, o.timeoutS), o.seed)
					if r.verdict != "unsat" && r.verdict != "sat" {
						r, _ = race(cf, o.timeoutS, o.seed, false, nil)
					}
					total += r.ms
					stats.add(r.ms)
					if r.verdict != "unsat" {
						best = r
						best.output = "case " + cs + ": " + r.output
						break
					}
					best.solver = r.solver + "+split"
				}
				best.ms = total
			} else if !o.all {
				// fast path: newest z3 alone with a short limit, then the full race
				best = runSolver(context.Background(), solvers[0], file, minInt(2, o.timeoutS), o.seed)
				if best.verdict != "unsat" && best.verdict != "sat" {
					best, _ = race(file, o.timeoutS, o.seed, false, nil)
				}
				// a 'sat' on a script with quantifiers or recursive definitions is only a candidate (the solver's model need
				// not satisfy them everywhere): it is overruled by a refutation from another solver; otherwise it stands
				if best.verdict == "sat" && !ob.Cover && (strings.Contains(script, "(forall ") || strings.Contains(script, "define-fun-rec")) {
					for _, sd := range solvers {
						if strings.HasPrefix(best.solver, sd.name) {
							continue
						}
						r := runSolver(context.Background(), sd, file, o.timeoutS, o.seed)
						stats.add(r.ms)
						if r.verdict == "unsat" {
							r.solver += " (overrules an unconfirmed 'sat' of " + best.solver + ")"
							best = r
							break
						}
					}
				}
				// solver incompleteness on quantified goals depends on the random seed: an 'unknown' is retried with
				// two other seeds (any 'unsat' is a proof; 'sat' is never produced by retrying harder)
				for extra := 1; extra <= 2 && !ob.Cover && ob.Known == nil && best.verdict != "unsat" && best.verdict != "sat"; extra++ {
					r2, _ := race(file, o.timeoutS, o.seed+1000*extra, false, nil)
					if r2.verdict == "unsat" || r2.verdict == "sat" {
						best = r2
						best.solver += fmt.Sprintf(" (seed+%d)", 1000*extra)
					}
				}
			} else {
				var all []solveResult
				best, all = race(file, o.timeoutS, o.seed, true, nil)
				if best.verdict == "disagree" && (strings.Contains(script, "(forall ") || strings.Contains(script, "define-fun-rec")) {
					// with quantifiers or recursive definitions a 'sat' is only a candidate; a refutation stands
					for _, r := range all {
						if r.verdict == "unsat" {
							r.solver += " (overrules an unconfirmed 'sat')"
							best = r
							break
						}
					}
				}
			}
			ob.Solver = best.solver
			ob.Ms = best.ms
			ob.Output = best.output
			if ob.SplitTerm == "" || ob.Cover {
				stats.add(best.ms)
			}
			if ob.Cover {
				switch best.verdict {
				case "sat":
					ob.Status = "cover-ok"
				case "unsat":
					ob.Status = "cover-fail"
				default:
					ob.Status = "cover-unknown"
				}
				return
			}
			switch best.verdict {
			case "unsat":
				ob.Status = "proved"
			case "sat":
				ob.Status = "failed"
			case "disagree", "error":
				ob.Status = "engine-error"
			default:
				ob.Status = "unknown"
			}
		}()
	}
	wg.Wait()
}

type runStats struct {
	mu      sync.Mutex
	totalMs int64
	queries int
}

func (s *runStats) add(ms int64) {
	s.mu.Lock()
	s.totalMs += ms
	s.queries++
	s.mu.Unlock()
}

// modelFor re-runs a failed obligation on old z3 (best at models) asking for values of the given terms.
func modelFor(f *FnVC, ob *Obl, dir string, terms []string, timeoutS int) (map[string]string, string) {
	// models are searched without the quantified (definitional) axioms: with them solvers answer
	// 'unknown' instead of 'sat'. A model found this way is only a candidate; it counts as a
	// counterexample only if it replays on the real code.
	head := f.scriptHeadOpt(false)
	script := f.scriptFor(ob, head)
	if len(terms) > 0 {
		script += "(get-value (" + strings.Join(terms, " ") + "))\n"
	}
	file := filepath.Join(dir, fmt.Sprintf("%s_%03d_model.smt2", sanitize(f.key), ob.ID))
	os.WriteFile(file, []byte(script), 0o644)
	for _, sd := range []solverDef{solvers[1], solvers[0], solvers[2]} {
		r := runSolver(context.Background(), sd, file, timeoutS, 0)
		if r.verdict == "sat" {
			vals := parseGetValue(r.output)
			return vals, r.output
		}
	}
	return nil, ""
}

// parseGetValue parses "((term value) (term value))" after the "sat" line.
func parseGetValue(out string) map[string]string {
	i := strings.Index(out, "\n")
	if i < 0 {
		return nil
	}
	s := strings.TrimSpace(out[i+1:])
	res := map[string]string{}
	// tokenise s-expression
	toks := sexpTokens(s)
	pos := 0
	var parse func() interface{}
	parse = func() interface{} {
		if pos >= len(toks) {
			return nil
		}
		t := toks[pos]
		pos++
		if t == "(" {
			var l []interface{}
			for pos < len(toks) && toks[pos] != ")" {
				l = append(l, parse())
			}
			pos++
			return l
		}
		return t
	}
	top := parse()
	l, ok := top.([]interface{})
	if !ok {
		return res
	}
	for _, pair := range l {
		p, ok := pair.([]interface{})
		if !ok || len(p) != 2 {
			continue
		}
		res[sexpString(p[0])] = sexpString(p[1])
	}
	return res
}

func sexpTokens(s string) []string {
	var toks []string
	i := 0
	for i < len(s) {
		c := s[i]
		switch {
		case c == '(' || c == ')':
			toks = append(toks, string(c))
			i++
		case c == ' ' || c == '\n' || c == '\t' || c == '\r':
			i++
		case c == '|':
			j := strings.IndexByte(s[i+1:], '|')
			toks = append(toks, s[i:i+j+2])
			i += j + 2
		case c == '"':
			j := strings.IndexByte(s[i+1:], '"')
			toks = append(toks, s[i:i+j+2])
			i += j + 2
		default:
			j := i
			for j < len(s) && !strings.ContainsRune("() \n\t\r", rune(s[j])) {
				j++
			}
			toks = append(toks, s[i:j])
			i = j
		}
	}
	return toks
}

func sexpString(x interface{}) string {
	switch v := x.(type) {
	case string:
		return v
	case []interface{}:
		var parts []string
		for _, e := range v {
			parts = append(parts, sexpString(e))
		}
		return "(" + strings.Join(parts, " ") + ")"
	}
	return ""
}

// smtIntValue converts "5" or "(- 5)" to an integer string.
func smtIntValue(s string) (string, bool) {
	s = strings.TrimSpace(s)
	if strings.HasPrefix(s, "(-") {
		inner := strings.TrimSpace(strings.TrimSuffix(strings.TrimPrefix(s, "(-"), ")"))
		return "-" + inner, true
	}
	for _, c := range s {
		if c < '0' || c > '9' {
			return "", false
		}
	}
	return s, s != ""
}
