package main

import (
	"fmt"
	"go/types"
	"strconv"
	"strings"

	"golang.org/x/tools/go/ssa"
)

type specErr string

func sfail(format string, a ...interface{}) { panic(specErr(fmt.Sprintf(format, a...))) }

type Env struct {
	f       *FnVC
	vars    map[string]TV
	lazy    func(name string, st *State) (TV, bool)
	st      *State
	old     *State
	oldVars map[string]TV
	inQuant int
	pkg     string // package path for name resolution
	recSelf *specFunInfo
	rangeIter *ssa.Range
	oldLazy func(name string, st *State) (TV, bool) // name resolution inside old(...) when it differs from the default (iteration clauses)
	iterOld *State // state at the head of the innermost loop around the current program point (for iterold(e))
	inApply bool // translating the expression of an `apply` clause: lemma calls denote (requires ==> ensures)
}

func (e *Env) clone() *Env {
	n := *e
	n.vars = map[string]TV{}
	for k, v := range e.vars {
		n.vars[k] = v
	}
	return &n
}

var boolTy = types.Typ[types.Bool]
var intTy = types.Typ[types.Int]
var strTy = types.Typ[types.String]

func (f *FnVC) trBool(env *Env, e SExpr) string {
	tv := f.trExpr(env, e)
	if tv.Sort != "Bool" {
		sfail("expected boolean expression, got sort %s in %s", tv.Sort, sexprString(e))
	}
	return tv.T
}

// ---------- environments ----------

func (f *FnVC) baseEnv() *Env {
	return &Env{f: f, vars: map[string]TV{}, pkg: f.pkgPath()}
}

func (f *FnVC) entryEnv() *Env {
	env := f.baseEnv()
	for n, tv := range f.paramTV {
		env.vars[n] = tv
	}
	for i, p := range f.fn.Params {
		env.vars[fmt.Sprintf("arg%d", i)] = f.paramTV[p.Name()]
	}
	for _, fv := range f.fn.FreeVars {
		fvv := fv
		_ = fvv
	}
	env.st = f.root
	env.old = f.root
	env.oldVars = env.vars
	env.lazy = f.freeVarLazy()
	return env
}

// freeVarLazy resolves captured variables (closure free variables are pointers to cells).
func (f *FnVC) freeVarLazy() func(string, *State) (TV, bool) {
	return func(name string, st *State) (TV, bool) {
		for _, fv := range f.fn.FreeVars {
			if fv.Name() == name {
				loc := f.resolveLoc(fv)
				return f.tv(f.loadLoc(loc, st), loc.ty), true
			}
		}
		return TV{}, false
	}
}

func (f *FnVC) resultNames() []string {
	var names []string
	if f.fn == nil {
		return nil
	}
	res := f.fn.Signature.Results()
	for i := 0; i < res.Len(); i++ {
		names = append(names, res.At(i).Name())
	}
	return names
}

func (f *FnVC) exitEnv(res []TV, st *State) *Env {
	env := f.entryEnv()
	env.st = st
	names := f.resultNames()
	for i, r := range res {
		if i < len(names) && names[i] != "" && names[i] != "_" {
			if _, clash := env.vars[names[i]]; !clash {
				env.vars[names[i]] = r
			}
		}
		if f.c != nil && i < len(f.c.Results) && f.c.Results[i].Name != "" {
			env.vars[f.c.Results[i].Name] = r
		}
		env.vars[fmt.Sprintf("result%d", i)] = r
	}
	if len(res) == 1 {
		env.vars["result"] = res[0]
	}
	env.oldVars = f.paramTV
	return env
}

func (f *FnVC) loopEnv(li *loopInfo, st *State, subst map[ssa.Value]TV) *Env {
	env := f.baseEnv()
	for _, in := range li.head.Instrs {
		if nx, ok := in.(*ssa.Next); ok {
			if r, ok := nx.Iter.(*ssa.Range); ok {
				env.rangeIter = r
			}
		}
	}
	env.st = st
	env.old = f.root
	env.oldVars = f.paramTV
	// iterold(e) in a clause of a nested loop: e at the beginning of the current iteration of the ENCLOSING loop
	var parent *loopInfo
	for _, o := range f.loops {
		if o != li && o.blocks[li.head.Index] && o.headState != nil && (parent == nil || len(o.blocks) < len(parent.blocks)) {
			parent = o
		}
	}
	if parent != nil {
		env.iterOld = parent.headState
	}
	fvl := f.freeVarLazy()
	env.lazy = func(name string, s *State) (TV, bool) {
		if v, ok := li.names[name]; ok {
			if tv, ok2 := subst[v]; ok2 {
				return tv, true
			}
			return f.val(v), true
		}
		if a, ok := li.addrNames[name]; ok {
			loc := f.resolveLoc(a)
			return f.tv(f.loadLoc(loc, s), loc.ty), true
		}
		return fvl(name, s)
	}
	return env
}

// ---------- types by name ----------

func (g *Gen) resolveType(text, specPkg, curPkg string) types.Type {
	text = strings.TrimSpace(text)
	switch {
	case text == "seq" || text == "set" || text == "":
		return nil
	case strings.HasPrefix(text, "*"):
		t := g.resolveType(text[1:], specPkg, curPkg)
		if t == nil {
			return nil
		}
		return types.NewPointer(t)
	case strings.HasPrefix(text, "[]"):
		t := g.resolveType(text[2:], specPkg, curPkg)
		if t == nil {
			return nil
		}
		return types.NewSlice(t)
	case strings.HasPrefix(text, "["):
		j := strings.Index(text, "]")
		n, _ := strconv.Atoi(text[1:j])
		t := g.resolveType(text[j+1:], specPkg, curPkg)
		if t == nil {
			return nil
		}
		return types.NewArray(t, int64(n))
	case strings.HasPrefix(text, "map["):
		depth := 0
		for i, c := range text {
			if c == '[' {
				depth++
			} else if c == ']' {
				depth--
				if depth == 0 {
					k := g.resolveType(text[4:i], specPkg, curPkg)
					v := g.resolveType(text[i+1:], specPkg, curPkg)
					if k == nil || v == nil {
						return nil
					}
					return types.NewMap(k, v)
				}
			}
		}
		return nil
	case text == "interface{}" || text == "any":
		return types.NewInterfaceType(nil, nil)
	case text == "error":
		return types.Universe.Lookup("error").Type()
	}
	if o := types.Universe.Lookup(text); o != nil {
		if tn, ok := o.(*types.TypeName); ok {
			return tn.Type()
		}
	}
	if i := strings.LastIndex(text, "."); i >= 0 {
		pn, name := text[:i], text[i+1:]
		// several packages may share a name (compress/gzip and fabio's proxy/gzip): take the first that has the
		// type, repository packages first
		for pass := 0; pass < 2; pass++ {
			for _, p := range g.allPkgs {
				if p.Types == nil || !(p.Types.Name() == pn || p.Types.Path() == pn) {
					continue
				}
				if (pass == 0) != strings.HasPrefix(p.Types.Path(), g.modPath) {
					continue
				}
				if o := p.Types.Scope().Lookup(name); o != nil {
					if tn, ok := o.(*types.TypeName); ok {
						return tn.Type()
					}
				}
			}
		}
		return nil
	}
	for _, pp := range []string{specPkg, curPkg} {
		if p, ok := g.pkgByPath[pp]; ok && p.Types != nil {
			if o := p.Types.Scope().Lookup(text); o != nil {
				if tn, ok := o.(*types.TypeName); ok {
					return tn.Type()
				}
			}
		}
	}
	return nil
}

// ---------- expression translation ----------

func (f *FnVC) lookupIdent(env *Env, name string) (TV, bool) {
	if tv, ok := env.vars[name]; ok {
		return tv, true
	}
	if env.lazy != nil {
		if tv, ok := env.lazy(name, env.st); ok {
			return tv, true
		}
	}
	if name == "goSpawns" || name == "chanRecvs" || name == "chanSends" {
		// activation-local counters of go statements and channel receives executed by this function
		h := f.regHeap("Gh_$"+name, "Int")
		return TV{T: env.st.get(h), Ty: intTy, Sort: "Int"}, true
	}
	if h, ty, ok := f.ghostHeap(name); ok {
		tv := TV{T: env.st.get(h), Ty: ty, Sort: f.heapSort[h]}
		if gv := f.g.specs.Ghosts[name]; strings.HasPrefix(gv.Type, "gmap[") {
			if f.ghostDesc == nil {
				f.ghostDesc = map[string]string{}
			}
			f.ghostDesc[tv.T] = gv.Type + "\x00" + gv.Pkg
		}
		return tv, true
	}
	// package-level variable
	if p, ok := f.g.ssaPkgs[env.pkg]; ok {
		if m, ok := p.Members[name]; ok {
			switch x := m.(type) {
			case *ssa.Global:
				h := f.globalHeap(x)
				ty := x.Type().(*types.Pointer).Elem()
				return f.tv(env.st.get(h), ty), true
			case *ssa.NamedConst:
				return f.constTV(x.Value), true
			}
		}
	}
	switch name {
	case "MaxInt64":
		return TV{"9223372036854775807", intTy, "Int"}, true
	case "MinInt64":
		return TV{"(- 9223372036854775808)", intTy, "Int"}, true
	case "nextref":
		return TV{env.st.get("$nextref"), intTy, "Int"}, true
	}
	return TV{}, false
}

func (f *FnVC) trExpr(env *Env, e SExpr) TV {
	switch x := e.(type) {
	case SInt:
		return TV{sIntText(x.Val), intTy, "Int"}
	case SReal:
		return TV{x.Val, types.Typ[types.Float64], "Real"}
	case SBool:
		if x.Val {
			return TV{"true", boolTy, "Bool"}
		}
		return TV{"false", boolTy, "Bool"}
	case SStr:
		return TV{f.strLit(x.Val), strTy, "Str"}
	case SNil:
		return TV{"0", types.Typ[types.UntypedNil], "Int"}
	case SIdent:
		if tv, ok := f.lookupIdent(env, x.Name); ok {
			return tv
		}
		sfail("unknown identifier %q", x.Name)
	case SOld:
		if env.old == nil {
			sfail("old() not available here")
		}
		n := env.clone()
		n.st = env.old
		if env.oldVars != nil {
			for k, v := range env.oldVars {
				n.vars[k] = v
			}
		}
		// in loop envs, old(x) for a parameter x means its entry value
		lz := env.lazy
		if env.oldLazy != nil {
			// iteration clauses: old(x) is x at the beginning of the iteration (the loop-head values)
			n.vars = map[string]TV{}
			n.lazy = env.oldLazy
			r := f.trExpr(n, x.X)
			if r.Sort == sliceSort && env.inQuant == 0 && f.sliceSt[r.T] == nil {
				if f.sliceSt == nil {
					f.sliceSt = map[string]*State{}
				}
				c := f.freshConst("oldsl", sliceSort)
				f.fact(sEq(c, r.T))
				f.sliceSt[c] = env.old
				r.T = c
			}
			return r
		}
		n.lazy = func(name string, st *State) (TV, bool) {
			if tv, ok := f.paramTV[name]; ok {
				return tv, true
			}
			if lz != nil {
				return lz(name, st)
			}
			return TV{}, false
		}
		r := f.trExpr(n, x.X)
		if r.Sort == sliceSort && env.inQuant == 0 && f.sliceSt[r.T] == nil {
			// the slice value is the same in both states; its ELEMENTS are those of the old state: give it a name of
			// its own that remembers the state (element reads and spec-function projections look it up)
			if f.sliceSt == nil {
				f.sliceSt = map[string]*State{}
			}
			c := f.freshConst("oldsl", sliceSort)
			f.fact(sEq(c, r.T))
			f.sliceSt[c] = env.old
			r.T = c
		}
		return r
	case SUn:
		a := f.trExpr(env, x.X)
		switch x.Op {
		case "!":
			return TV{sNot(a.T), boolTy, "Bool"}
		case "-":
			return TV{"(- " + a.T + ")", a.Ty, a.Sort}
		}
	case SIte:
		c := f.trBool(env, x.C)
		a, b := f.trExpr(env, x.A), f.trExpr(env, x.B)
		a, b = f.unify(a, b)
		return TV{sIte(c, a.T, b.T), a.Ty, a.Sort}
	case SBin:
		return f.trBin(env, x)
	case SQuant:
		n := env.clone()
		n.inQuant++
		var binds []string
		var guards []string
		for _, v := range x.Vars {
			ty := f.g.resolveType(v.Type, env.pkg, f.pkgPath())
			so := "Int"
			if ty != nil {
				so = f.sorts.sortOf(ty)
			}
			f.fresh++
			bn := fmt.Sprintf("q%d_%s", f.fresh, v.Name)
			n.vars[v.Name] = TV{bn, ty, so}
			binds = append(binds, "("+bn+" "+so+")")
			guards = append(guards, f.typeInv(bn, ty)...)
		}
		body := f.trBool(n, x.Body)
		q := "exists"
		if x.Forall {
			q = "forall"
			body = sImp(sAnd(guards...), body)
		} else {
			body = sAnd(append(guards, body)...)
		}
		return TV{"(" + q + " (" + strings.Join(binds, " ") + ") " + body + ")", boolTy, "Bool"}
	case SField:
		return f.trField(env, x)
	case SIndex:
		return f.trIndex(env, x)
	case SSlice:
		return f.trSlice(env, x)
	case SCall:
		return f.trCall(env, x)
	}
	sfail("cannot translate %s", sexprString(e))
	return TV{}
}

// lemmaInstance: inside an `apply` clause a call  lemma(args)  denotes the lemma's statement for these arguments,
// (requires ==> ensures), evaluated in the current state. The lemma is a ghost function with a proved contract.
func (f *FnVC) lemmaInstance(env *Env, name string, argsE []SExpr) (TV, bool) {
	pkg := f.pkgPath()
	ct := f.g.specs.Contracts[pkg+"."+name]
	if ct == nil || ct.Extern {
		return TV{}, false
	}
	fn := f.g.findFunc(pkg, name)
	if fn == nil {
		return TV{}, false
	}
	if ct.Trusted || !ct.HasAssign || len(ct.Assigns) != 0 || ct.AssignsAll {
		sfail("lemma %s must be proved (not trusted) and declare 'assigns nothing'", name)
	}
	if len(argsE) != len(fn.Params) {
		sfail("lemma %s takes %d arguments", name, len(fn.Params))
	}
	proved := false
	for _, p := range ct.Props {
		if p == f.g.curProp {
			proved = true
		}
	}
	if !proved {
		sfail("lemma %s is not proved under this property's check (add it to the lemma's props)", name)
	}
	n := env.clone()
	n.inApply = false
	n.lazy = nil
	n.old = env.st
	for i, a := range argsE {
		tv := f.trExpr(env, a)
		want := f.tv("x", fn.Params[i].Type())
		if c2, ok := f.coerce(tv, want); ok {
			tv = c2
		}
		n.vars[fn.Params[i].Name()] = tv
	}
	n.oldVars = n.vars
	var req, ens []string
	for _, r := range ct.Requires {
		req = append(req, f.trBool(n, r.E))
	}
	for _, e := range ct.Ensures {
		if id, ok := e.E.(SIdent); ok && id.Name == "nopanic" {
			continue
		}
		ens = append(ens, f.trBool(n, e.E))
	}
	f.lemmaUsed = true
	f.trusted["lemma "+name+" (ghost function with its own proved contract) used as a fact"] = true
	return TV{sImp(sAnd(req...), sAnd(ens...)), boolTy, "Bool"}, true
}

func sIntText(v string) string { return v }

func (f *FnVC) unify(a, b TV) (TV, TV) {
	if a.Sort == b.Sort {
		if a.Ty == nil || isUntypedNil(a.Ty) {
			a.Ty = b.Ty
		}
		if b.Ty == nil || isUntypedNil(b.Ty) {
			b.Ty = a.Ty
		}
		return a, b
	}
	// nil against slice
	if a.Sort == sliceSort && b.T == "0" {
		b = TV{"(mk_slice 0 0 0 0)", a.Ty, sliceSort}
		return a, b
	}
	if b.Sort == sliceSort && a.T == "0" {
		a = TV{"(mk_slice 0 0 0 0)", b.Ty, sliceSort}
		return a, b
	}
	if a.Sort == "Int" && b.Sort == "Real" {
		a = TV{"(to_real " + a.T + ")", b.Ty, "Real"}
		return a, b
	}
	if a.Sort == "Real" && b.Sort == "Int" {
		b = TV{"(to_real " + b.T + ")", a.Ty, "Real"}
		return a, b
	}
	sfail("sort mismatch %s vs %s (%s, %s)", a.Sort, b.Sort, a.T, b.T)
	return a, b
}

func isUntypedNil(t types.Type) bool {
	b, ok := t.(*types.Basic)
	return ok && b.Kind() == types.UntypedNil
}

func (f *FnVC) trBin(env *Env, x SBin) TV {
	switch x.Op {
	case "&&", "||", "==>", "<==>":
		a, b := f.trBool(env, x.L), f.trBool(env, x.R)
		switch x.Op {
		case "&&":
			return TV{sAnd(a, b), boolTy, "Bool"}
		case "||":
			return TV{sOr(a, b), boolTy, "Bool"}
		case "==>":
			return TV{sImp(a, b), boolTy, "Bool"}
		default:
			return TV{sEq(a, b), boolTy, "Bool"}
		}
	}
	a, b := f.trExpr(env, x.L), f.trExpr(env, x.R)
	a, b = f.unify(a, b)
	switch x.Op {
	case "==", "!=":
		var t string
		if a.Sort == sliceSort && (b.T == "(mk_slice 0 0 0 0)" || a.T == "(mk_slice 0 0 0 0)") {
			t = f.equal(a, b, a.Ty)
		} else {
			if a.Sort == "Str" && env.inQuant == 0 {
				f.strExt(a.T, b.T)
			}
			t = sEq(a.T, b.T)
			if a.Sort == "Str" {
				t = sAnd(t, f.litElems(a.T, b.T), f.litElems(b.T, a.T))
			}
		}
		if x.Op == "!=" {
			t = sNot(t)
		}
		return TV{t, boolTy, "Bool"}
	case "<", "<=", ">", ">=":
		if a.Sort == "Str" {
			// Go's bytewise lexicographic order on strings: the uninterpreted strict order str_lt (same symbol as in code)
			f.declFun("str_lt", []string{"Str", "Str"}, "Bool")
			lt := func(p, q string) string { return sApp("str_lt", p, q) }
			switch x.Op {
			case "<":
				return TV{lt(a.T, b.T), boolTy, "Bool"}
			case ">":
				return TV{lt(b.T, a.T), boolTy, "Bool"}
			case "<=":
				return TV{sOr(lt(a.T, b.T), sEq(a.T, b.T)), boolTy, "Bool"}
			default:
				return TV{sOr(lt(b.T, a.T), sEq(a.T, b.T)), boolTy, "Bool"}
			}
		}
		return TV{"(" + x.Op + " " + a.T + " " + b.T + ")", boolTy, "Bool"}
	case "+":
		if a.Sort == "Str" {
			return TV{f.strCat(a.T, b.T), strTy, "Str"}
		}
		return TV{"(+ " + a.T + " " + b.T + ")", a.Ty, a.Sort}
	case "-":
		return TV{"(- " + a.T + " " + b.T + ")", a.Ty, a.Sort}
	case "*":
		if a.Sort == "Real" {
			return TV{"(" + f.rmulSym(a.T, b.T) + " " + a.T + " " + b.T + ")", a.Ty, a.Sort}
		}
		return TV{"(* " + a.T + " " + b.T + ")", a.Ty, a.Sort}
	case "/":
		if a.Sort == "Real" {
			return TV{"(" + f.rdivSym(b.T) + " " + a.T + " " + b.T + ")", a.Ty, a.Sort}
		}
		return TV{"(" + f.divSym("tdiv", b.T) + " " + a.T + " " + b.T + ")", a.Ty, a.Sort}
	case "%":
		return TV{"(" + f.divSym("tmod", b.T) + " " + a.T + " " + b.T + ")", a.Ty, a.Sort}
	case "<<":
		if n, err := strconv.Atoi(b.T); err == nil {
			return TV{"(* " + a.T + " " + pow2(n) + ")", a.Ty, a.Sort}
		}
	case ">>":
		if n, err := strconv.Atoi(b.T); err == nil {
			return TV{"(div " + a.T + " " + pow2(n) + ")", a.Ty, a.Sort}
		}
	case "|":
		return TV{"(bor " + a.T + " " + b.T + ")", a.Ty, a.Sort}
	case "&":
		return TV{"(band " + a.T + " " + b.T + ")", a.Ty, a.Sort}
	}
	sfail("unsupported operator %s", x.Op)
	return TV{}
}

func (f *FnVC) trField(env *Env, x SField) TV {
	// package-qualified name?
	if id, ok := x.X.(SIdent); ok {
		if _, isVar := f.lookupIdent(env, id.Name); !isVar {
			for _, p := range f.g.allPkgs {
				if p.Types != nil && p.Types.Name() == id.Name {
					if sp, ok := f.g.ssaPkgs[p.Types.Path()]; ok {
						if m, ok := sp.Members[x.Name]; ok {
							switch mm := m.(type) {
							case *ssa.Global:
								h := f.globalHeap(mm)
								return f.tv(env.st.get(h), mm.Type().(*types.Pointer).Elem())
							case *ssa.NamedConst:
								return f.constTV(mm.Value)
							}
						}
					}
				}
			}
			sfail("unknown qualified name %s.%s", id.Name, x.Name)
		}
	}
	a := f.trExpr(env, x.X)
	if a.Ty == nil {
		sfail("field access on untyped value %s", sexprString(x.X))
	}
	switch u := a.Ty.Underlying().(type) {
	case *types.Pointer:
		st, ok := u.Elem().Underlying().(*types.Struct)
		if !ok {
			sfail("field access through pointer to non-struct")
		}
		idx, path := findField(st, x.Name)
		if idx < 0 {
			sfail("no field %s in %s", x.Name, u.Elem())
		}
		if len(path) > 1 {
			sfail("promoted field %s not supported; spell out the embedded field", x.Name)
		}
		h, fl := f.fieldHeap(u.Elem(), idx)
		t := sSel(env.st.get(h), a.T)
		tv := f.tv(t, fl.Ty)
		if env.inQuant == 0 {
			f.typeFacts(tv, true)
			if env.st.kind != stParam {
				f.allocatedFactAt(tv, f.nextrefOfHeapTerm(env.st.get(h), env.st.get("$nextref")))
			}
		}
		return tv
	case *types.Struct:
		idx, _ := findField(u, x.Name)
		if idx < 0 {
			sfail("no field %s in %s", x.Name, a.Ty)
		}
		dt := f.sorts.dtOf(a.Ty)
		tv := f.tv(sApp(dt.Fields[idx].Acc, a.T), dt.Fields[idx].Ty)
		if env.inQuant == 0 {
			f.typeFacts(tv, true)
		}
		return tv
	}
	sfail("field access on %s", a.Ty)
	return TV{}
}

func findField(st *types.Struct, name string) (int, []int) {
	for i := 0; i < st.NumFields(); i++ {
		if st.Field(i).Name() == name {
			return i, []int{i}
		}
	}
	return -1, nil
}

func (f *FnVC) trIndex(env *Env, x SIndex) TV {
	a := f.trExpr(env, x.X)
	i := f.trExpr(env, x.I)
	if a.Ty == nil {
		if d, ok := f.ghostDesc[a.T]; ok {
			parts := strings.SplitN(d, "\x00", 2)
			ktxt, vtxt := splitGmap(parts[0])
			if kt := f.g.resolveType(ktxt, parts[1], f.pkgPath()); kt != nil && i.Ty != nil {
				// a concrete value used as key of a map keyed by an interface type: box it
				if _, kIface := kt.Underlying().(*types.Interface); kIface {
					if _, iIface := i.Ty.Underlying().(*types.Interface); !iIface && i.Sort == "Int" && i.T != "0" {
						if _, isPtr := i.Ty.Underlying().(*types.Pointer); isPtr {
							box, _ := f.boxFun(i.Ty)
							i = TV{sApp(box, i.T), kt, "Int"}
						}
					}
				}
			}
			t := sSel(a.T, i.T)
			if strings.HasPrefix(vtxt, "gmap[") {
				f.ghostDesc[t] = vtxt + "\x00" + parts[1]
				return TV{t, nil, f.gmapSort(vtxt, parts[1])}
			}
			vt := f.g.resolveType(vtxt, parts[1], f.pkgPath())
			if vt == nil {
				sfail("ghost map: cannot resolve value type %s", vtxt)
			}
			return f.tv(t, vt)
		}
		// spec-level sequence: (Array Int Int)
		if strings.HasPrefix(a.Sort, "(Array") {
			return TV{sSel(a.T, i.T), intTy, "Int"}
		}
		sfail("index on untyped value")
	}
	var tv TV
	switch u := a.Ty.Underlying().(type) {
	case *types.Slice:
		eh := f.elemHeap(u.Elem())
		est := env.st
		if st2 := f.sliceSt[a.T]; st2 != nil {
			est = st2
		}
		tv = f.tv(sSel(est.projGet(eh, a.T), sIdx("(s_off "+a.T+")", i.T)), u.Elem())
	case *types.Array:
		tv = f.tv(sSel(a.T, i.T), u.Elem())
	case *types.Pointer:
		at, ok := u.Elem().Underlying().(*types.Array)
		if !ok {
			sfail("index through pointer to non-array")
		}
		eh := f.elemHeap(at.Elem())
		tv = f.tv(sSel(sSel(env.st.get(eh), a.T), i.T), at.Elem())
	case *types.Basic:
		tv = TV{sApp("sat", a.T, i.T), types.Typ[types.Uint8], "Int"}
	case *types.Map:
		mv, md := f.mapHeaps(u)
		present := sAnd("(not (= "+a.T+" 0))", sSel(sSel(env.st.get(md), a.T), i.T))
		tv = f.tv(sIte(present, sSel(sSel(env.st.get(mv), a.T), i.T), f.sorts.zeroOf(u.Elem())), u.Elem())
	default:
		sfail("cannot index %s", a.Ty)
	}
	if env.inQuant == 0 {
		f.typeFacts(tv, true)
	}
	return tv
}

func (f *FnVC) trSlice(env *Env, x SSlice) TV {
	a := f.trExpr(env, x.X)
	lo := "0"
	if x.Lo != nil {
		lo = f.trExpr(env, x.Lo).T
	}
	switch a.Sort {
	case sliceSort:
		hi := "(s_len " + a.T + ")"
		if x.Hi != nil {
			hi = f.trExpr(env, x.Hi).T
		}
		return TV{sApp("mk_slice", "(s_ref "+a.T+")", sAdd("(s_off "+a.T+")", lo), sSub(hi, lo), sSub("(s_cap "+a.T+")", lo)), a.Ty, sliceSort}
	case "Str":
		hi := "(slen " + a.T + ")"
		if x.Hi != nil {
			hi = f.trExpr(env, x.Hi).T
		}
		return TV{f.strSub(a.T, lo, hi), strTy, "Str"}
	}
	sfail("cannot slice %s", a.Sort)
	return TV{}
}

func (f *FnVC) trCall(env *Env, x SCall) TV {
	// qualified extern pure function
	if sf, ok := x.Fun.(SField); ok {
		if id, ok := sf.X.(SIdent); ok {
			if _, isVar := f.lookupIdent(env, id.Name); !isVar {
				return f.trExternPure(env, id.Name+"."+sf.Name, x.Args)
			}
		}
		sfail("method calls are not allowed in specifications: %s", sexprString(x))
	}
	id, ok := x.Fun.(SIdent)
	if !ok {
		sfail("unsupported call %s", sexprString(x))
	}
	if env.inApply {
		if tv, ok := f.lemmaInstance(env, id.Name, x.Args); ok {
			return tv
		}
	}
	arg := func(i int) TV {
		if i >= len(x.Args) {
			sfail("%s: missing argument %d", id.Name, i)
		}
		return f.trExpr(env, x.Args[i])
	}
	switch id.Name {
	case "iterold":
		// iterold(e): e as it was at the beginning of the current iteration of the innermost enclosing loop
		if env.iterOld == nil {
			sfail("iterold() is only available at a program point inside a loop")
		}
		if len(x.Args) != 1 {
			sfail("iterold(e)")
		}
		n := env.clone()
		n.st = env.iterOld
		r := f.trExpr(n, x.Args[0])
		if r.Sort == sliceSort && env.inQuant == 0 {
			if f.sliceSt == nil {
				f.sliceSt = map[string]*State{}
			}
			c := f.freshConst("iteroldsl", sliceSort)
			f.fact(sEq(c, r.T))
			f.sliceSt[c] = env.iterOld
			r.T = c
		}
		return r
	case "len":
		a := arg(0)
		switch {
		case a.Sort == sliceSort:
			return TV{"(s_len " + a.T + ")", intTy, "Int"}
		case a.Sort == "Str":
			return TV{"(slen " + a.T + ")", intTy, "Int"}
		}
		if a.Ty != nil {
			switch u := a.Ty.Underlying().(type) {
			case *types.Array:
				return TV{fmt.Sprint(u.Len()), intTy, "Int"}
			case *types.Map:
				_, md := f.mapHeaps(u)
				return TV{sIte("(= "+a.T+" 0)", "0", f.mapcard(sSel(env.st.get(md), a.T), md)), intTy, "Int"}
			}
		}
		sfail("len of %s", a.Sort)
	case "cap":
		a := arg(0)
		return TV{"(s_cap " + a.T + ")", intTy, "Int"}
	case "int", "int8", "int16", "int32", "int64", "uint", "uint8", "uint16", "uint32", "uint64", "byte", "rune", "uintptr":
		a := arg(0)
		if a.Sort == "Real" {
			return TV{"(to_int " + a.T + ")", intTy, "Int"}
		}
		return TV{a.T, types.Universe.Lookup(id.Name).Type(), "Int"}
	case "float64":
		a := arg(0)
		if a.Sort == "Int" {
			return TV{"(to_real " + a.T + ")", types.Typ[types.Float64], "Real"}
		}
		return a
	case "string":
		a := arg(0)
		if a.Sort == "Str" {
			return a
		}
		if a.Sort == sliceSort {
			sl := a.Ty.Underlying().(*types.Slice)
			eh := f.elemHeap(sl.Elem())
			if b, ok := sl.Elem().Underlying().(*types.Basic); !ok || b.Kind() != types.Uint8 {
				// string([]rune): the UTF-8 encoding of the runes (uninterpreted, the same symbol the code translation uses)
				f.declFun("runes2str", []string{"(Array Int Int)", "Int", "Int"}, "Str")
				return TV{sApp("runes2str", sSel(env.st.get(eh), "(s_ref "+a.T+")"), "(s_off "+a.T+")", "(s_len "+a.T+")"), strTy, "Str"}
			}
			return TV{f.strFromBytes(sSel(env.st.get(eh), "(s_ref "+a.T+")"), "(s_off "+a.T+")", "(s_len "+a.T+")"), strTy, "Str"}
		}
		sfail("string() of %s", a.Sort)
	case "fresh":
		a := arg(0)
		if env.old == nil {
			sfail("fresh() needs a pre-state")
		}
		r := a.T
		if a.Sort == sliceSort {
			r = "(s_ref " + a.T + ")"
		}
		return TV{sAnd("(>= "+r+" "+env.old.get("$nextref")+")", "(< "+r+" "+env.st.get("$nextref")+")"), boolTy, "Bool"}
	case "allocated":
		a := arg(0)
		r := a.T
		if a.Sort == sliceSort {
			r = "(s_ref " + a.T + ")"
		}
		return TV{sAnd("(> "+r+" 0)", "(< "+r+" "+env.st.get("$nextref")+")"), boolTy, "Bool"}
	case "ref":
		a := arg(0)
		if a.Sort == sliceSort {
			return TV{"(s_ref " + a.T + ")", intTy, "Int"}
		}
		return TV{a.T, intTy, "Int"}
	case "off":
		a := arg(0)
		return TV{"(s_off " + a.T + ")", intTy, "Int"}
	case "typeIs":
		a := arg(0)
		tn := sexprString(x.Args[1])
		ty := f.g.resolveType(tn, env.pkg, f.pkgPath())
		if ty == nil {
			sfail("typeIs: unknown type %s", tn)
		}
		return TV{sAnd("(not (= "+a.T+" 0))", sEq(sApp("typeof", a.T), f.typeTag(ty))), boolTy, "Bool"}
	case "unbox":
		a := arg(0)
		tn := sexprString(x.Args[1])
		ty := f.g.resolveType(tn, env.pkg, f.pkgPath())
		if ty == nil {
			sfail("unbox: unknown type %s", tn)
		}
		_, ub := f.boxFun(ty)
		return f.tv(sApp(ub, a.T), ty)
	case "implements":
		a := arg(0)
		tn := sexprString(x.Args[1])
		ty := f.g.resolveType(tn, env.pkg, f.pkgPath())
		if ty == nil {
			sfail("implements: unknown type %s", tn)
		}
		impl := f.declFun("implements_"+sanitize(typeKey(ty)), []string{"Int"}, "Bool")
		return TV{sAnd("(not (= "+a.T+" 0))", sApp(impl, sApp("typeof", a.T))), boolTy, "Bool"}
	case "boundRecv":
		// boundRecv(f, T): receiver bound into a method value f, at type T
		a := arg(0)
		tn := sexprString(x.Args[1])
		ty := f.g.resolveType(tn, env.pkg, f.pkgPath())
		if ty == nil {
			sfail("boundRecv: unknown type %s", tn)
		}
		so := f.sorts.sortOf(ty)
		bf := f.declFun(fmt.Sprintf("closure_bind0_%s", sanitize(so)), []string{"Int"}, so)
		return f.tv(sApp(bf, a.T), ty)
	case "isMethodValue":
		a := arg(0)
		name, ok := x.Args[1].(SStr)
		if !ok {
			sfail("isMethodValue: second argument must be a string literal")
		}
		f.declFun("closure_fn", []string{"Int"}, "Int")
		return TV{sEq(sApp("closure_fn", a.T), f.fnTag(name.Val+"$bound")), boolTy, "Bool"}
	case "visited":
		// visited(k): has the enclosing map iteration already produced key k?
		if env.rangeIter == nil {
			sfail("visited() is only available in invariants of a range-over-map loop")
		}
		a := arg(0)
		mt := env.rangeIter.X.Type().Underlying().(*types.Map)
		return TV{sSel(env.st.get(f.visitedHeap(env.rangeIter, mt)), a.T), boolTy, "Bool"}
	case "storeAt":
		// storeAt(m, k, v): ghost map m with key k set to v
		a, k, v := arg(0), arg(1), arg(2)
		if d, ok := f.ghostDesc[a.T]; ok {
			t := sStore(a.T, k.T, v.T)
			f.ghostDesc[t] = d
			return TV{t, nil, a.Sort}
		}
		sfail("storeAt: first argument must be a ghost map")
	case "sameType":
		// sameType(a, b): two interface values have the same dynamic type
		a, b := arg(0), arg(1)
		return TV{sEq(sApp("typeof", a.T), sApp("typeof", b.T)), boolTy, "Bool"}
	case "boxZero":
		// boxZero(T): the interface value holding the zero value of T (e.g. an empty struct used as a context key)
		if len(x.Args) != 1 {
			sfail("boxZero(T)")
		}
		tn := sexprString(x.Args[0])
		ty := f.g.resolveType(tn, env.pkg, f.pkgPath())
		if ty == nil {
			sfail("boxZero: unknown type %s", tn)
		}
		box, unbox := f.boxFun(ty)
		z := f.sorts.zeroOf(ty)
		b := sApp(box, z)
		f.fact("(> " + b + " 0)")
		f.fact(sEq(sApp(unbox, b), z))
		f.fact(sEq(sApp("typeof", b), f.typeTag(ty)))
		return TV{b, types.NewInterfaceType(nil, nil), "Int"}
	case "addrOfElem":
		// addrOfElem(s, i): &s[i] for a slice s
		a, i := arg(0), arg(1)
		sl, ok := a.Ty.Underlying().(*types.Slice)
		if !ok {
			sfail("addrOfElem(slice, index)")
		}
		fn := f.declFun("eptr_"+shortTypeName(sl.Elem()), []string{"Int", "Int"}, "Int")
		return f.tv(sApp(fn, "(s_ref "+a.T+")", sIdx("(s_off "+a.T+")", i.T)), types.NewPointer(sl.Elem()))
	case "addrOfField":
		// addrOfField(p, f): address of field f of the struct p points to
		a := arg(0)
		fid, ok := x.Args[1].(SIdent)
		pt, ok2 := a.Ty.Underlying().(*types.Pointer)
		if !ok || !ok2 {
			sfail("addrOfField(pointer, fieldname)")
		}
		dt := f.sorts.dtOf(pt.Elem())
		if dt == nil {
			sfail("addrOfField: not a struct pointer")
		}
		for _, fl := range dt.Fields {
			if fl.Name == fid.Name {
				fn := f.declFun("fptr_"+dt.Name[2:]+"_"+sanitize(fl.Name), []string{"Int"}, "Int")
				return f.tv(sApp(fn, a.T), types.NewPointer(fl.Ty))
			}
		}
		sfail("addrOfField: no field %s", fid.Name)
	case "addrOf":
		// address of a package-level variable
		id2, ok := x.Args[0].(SIdent)
		if !ok {
			sfail("addrOf: expected a package-level variable name")
		}
		if p, ok := f.g.ssaPkgs[env.pkg]; ok {
			if m, ok := p.Members[id2.Name]; ok {
				if g, ok := m.(*ssa.Global); ok {
					return f.val(g)
				}
			}
		}
		sfail("addrOf: unknown package-level variable %s", id2.Name)
	case "deref":
		a := arg(0)
		pt, ok := a.Ty.Underlying().(*types.Pointer)
		if !ok {
			sfail("deref of non-pointer")
		}
		loc := f.locOfRef(a.T, pt.Elem())
		return f.tv(f.loadLoc(loc, env.st), pt.Elem())
	case "hasKey":
		a, k := arg(0), arg(1)
		mt, ok := a.Ty.Underlying().(*types.Map)
		if !ok {
			sfail("hasKey on non-map")
		}
		_, md := f.mapHeaps(mt)
		if env.inQuant == 0 {
			f.fact(sImp(sSel(sSel(env.st.get(md), a.T), k.T), "(>= "+f.mapcard(sSel(env.st.get(md), a.T), md)+" 1)"))
		}
		return TV{sAnd("(not (= "+a.T+" 0))", sSel(sSel(env.st.get(md), a.T), k.T)), boolTy, "Bool"}
	case "min", "max":
		a, b := arg(0), arg(1)
		op := "<="
		if id.Name == "max" {
			op = ">="
		}
		return TV{sIte("("+op+" "+a.T+" "+b.T+")", a.T, b.T), a.Ty, a.Sort}
	case "abs":
		a := arg(0)
		return TV{sIte("(>= "+a.T+" 0)", a.T, "(- "+a.T+")"), a.Ty, a.Sort}
	}
	for _, ct := range f.g.specs.Contracts {
		if idx, ok := ct.Aliases[id.Name]; ok && ct.Pure {
			return f.trExternPureIdx(env, ct.Key, x.Args, idx)
		}
	}
	if sf, ok := f.g.specs.SpecFuns[id.Name]; ok {
		var args []TV
		for i := range x.Args {
			args = append(args, arg(i))
		}
		return f.applySpecFun(env, sf, args)
	}
	// type conversion to a named type: T(x)
	if ty := f.g.resolveType(id.Name, env.pkg, f.pkgPath()); ty != nil && len(x.Args) == 1 {
		a := arg(0)
		return TV{a.T, ty, f.sorts.sortOf(ty)}
	}
	sfail("unknown function %s in specification", id.Name)
	return TV{}
}

// ---------- spec functions ----------

type specFunInfo struct {
	sf      *SpecFun
	name    string
	heaps   []string // heap names passed implicitly (recursive functions)
	sorts   []string
	resTy   types.Type
	resSo   string
	defined bool
}

func (f *FnVC) specParamTV(sf *SpecFun, i int, term string) TV {
	p := sf.Params[i]
	ty := f.g.resolveType(p.Type, sf.Pkg, f.pkgPath())
	so := "Int"
	if p.Type == "seq" {
		so = "(Array Int Int)"
	} else if p.Type == "bool" {
		so = "Bool"
	} else if ty != nil {
		so = f.sorts.sortOf(ty)
	}
	return TV{term, ty, so}
}

func (f *FnVC) specResult(sf *SpecFun) (types.Type, string) {
	ty := f.g.resolveType(sf.Result, sf.Pkg, f.pkgPath())
	so := "Int"
	if sf.Result == "seq" {
		so = "(Array Int Int)"
	} else if ty != nil {
		so = f.sorts.sortOf(ty)
	}
	return ty, so
}

func (f *FnVC) applySpecFun(env *Env, sf *SpecFun, args []TV) TV {
	if len(args) != len(sf.Params) {
		sfail("spec fun %s: want %d args, got %d", sf.Name, len(sf.Params), len(args))
	}
	rty, rso := f.specResult(sf)
	if sf.Uninterp {
		var as, ss []string
		for i, a := range args {
			p := f.specParamTV(sf, i, "")
			a2, _ := f.coerce(a, p)
			as = append(as, a2.T)
			ss = append(ss, p.Sort)
		}
		fn := f.declFun("sf_"+sf.Name, ss, rso)
		f.specAxioms(sf)
		return TV{sApp(fn, as...), rty, rso}
	}
	if !sf.Rec {
		// inline expansion
		n := env.clone()
		n.vars = map[string]TV{}
		for k, v := range env.vars {
			_ = k
			_ = v
		}
		n.lazy = nil
		n.pkg = sf.Pkg
		for i, a := range args {
			p := f.specParamTV(sf, i, "")
			a2, _ := f.coerce(a, p)
			if a2.Ty == nil {
				a2.Ty = p.Ty
			}
			n.vars[sf.Params[i].Name] = a2
		}
		r := f.trExpr(n, sf.Body)
		if r.Sort != rso {
			if rso == "Real" && r.Sort == "Int" {
				r = TV{"(to_real " + r.T + ")", rty, rso}
			} else {
				sfail("spec fun %s: body has sort %s, declared %s", sf.Name, r.Sort, rso)
			}
		}
		if rty != nil {
			r.Ty = rty
		}
		return r
	}
	info := f.defineRecSpecFun(sf)
	var as []string
	for i, a := range args {
		p := f.specParamTV(sf, i, "")
		a2, _ := f.coerce(a, p)
		as = append(as, a2.T)
	}
	for _, h := range info.heaps {
		if i := strings.Index(h, "|"); i >= 0 {
			// projection: backing array of a slice parameter
			pn := h[i+1:]
			found := false
			for k, p := range sf.Params {
				if "a_"+p.Name == pn {
					est := env.st
					if st2 := f.sliceSt[as[k]]; st2 != nil {
						est = st2
					}
					as = append(as, est.projGet(h[:i], as[k]))
					found = true
				}
			}
			if !found {
				sfail("spec fun %s: internal error: projection on unknown parameter %s", sf.Name, pn)
			}
			continue
		}
		as = append(as, env.st.get(h))
	}
	return TV{sApp(info.name, as...), rty, rso}
}

func (f *FnVC) coerce(a TV, want TV) (TV, bool) {
	if a.Sort == want.Sort {
		return a, true
	}
	if want.Sort == sliceSort && a.T == "0" {
		return TV{"(mk_slice 0 0 0 0)", want.Ty, sliceSort}, true
	}
	if want.Sort == "Real" && a.Sort == "Int" {
		return TV{"(to_real " + a.T + ")", want.Ty, "Real"}, true
	}
	if want.Ty != nil && a.Ty != nil && want.Sort == "Int" {
		if _, isIface := want.Ty.Underlying().(*types.Interface); isIface {
			if _, aIface := a.Ty.Underlying().(*types.Interface); !aIface {
				// a concrete value where an interface is expected: box it (same function symbols as MakeInterface)
				box, _ := f.boxFun(a.Ty)
				return TV{sApp(box, a.T), want.Ty, "Int"}, true
			}
		}
	}
	sfail("argument sort mismatch: have %s want %s (%s)", a.Sort, want.Sort, a.T)
	return a, false
}

// recState is a State whose heap lookups return formal parameter names and record which heaps are used.
func (f *FnVC) defineRecSpecFun(sf *SpecFun) *specFunInfo {
	if info, ok := f.specDefined[sf.Name]; ok {
		return info
	}
	rty, rso := f.specResult(sf)
	info := &specFunInfo{sf: sf, name: "sf_" + sf.Name, resTy: rty, resSo: rso}
	f.specDefined[sf.Name] = info
	// pass 1: discover heaps; pass 2: emit with the final heap list (iterate to fixpoint)
	var body string
	for iter := 0; iter < 4; iter++ {
		used := map[string]bool{}
		env := &Env{f: f, vars: map[string]TV{}, pkg: sf.Pkg, inQuant: 1}
		env.st = &State{f: f, m: map[string]string{}, kind: stParam, used: used}
		env.old = env.st
		for i, p := range sf.Params {
			env.vars[p.Name] = f.specParamTV(sf, i, "a_"+p.Name)
		}
		before := len(info.heaps)
		r := f.trExpr(env, sf.Body)
		body = r.T
		if r.Sort != rso {
			sfail("spec fun %s: body sort %s, declared %s", sf.Name, r.Sort, rso)
		}
		for _, h := range sortedKeys(used) {
			found := false
			for _, x := range info.heaps {
				if x == h {
					found = true
				}
			}
			if !found {
				info.heaps = append(info.heaps, h)
			}
		}
		if len(info.heaps) == before && iter > 0 {
			break
		}
	}
	var ps []string
	for i, p := range sf.Params {
		ps = append(ps, "(a_"+p.Name+" "+f.specParamTV(sf, i, "").Sort+")")
	}
	for _, h := range info.heaps {
		if i := strings.Index(h, "|"); i >= 0 {
			so := f.heapSort[h[:i]]
			inner := strings.TrimSuffix(strings.TrimPrefix(so, "(Array Int "), ")")
			ps = append(ps, "("+f.sym(h[:i]+"@p@"+h[i+1:])+" "+inner+")")
			continue
		}
		ps = append(ps, "("+f.sym(h+"@p")+" "+f.heapSort[h]+")")
	}
	f.specDefs = append(f.specDefs, fmt.Sprintf("(define-fun-rec %s (%s) %s %s)", info.name, strings.Join(ps, " "), rso, body))
	info.defined = true
	return info
}

func (f *FnVC) specAxioms(sf *SpecFun) {
	key := "axioms:" + sf.Name
	if f.declSet[key] {
		return
	}
	f.declSet[key] = true
	for _, ax := range sf.Axioms {
		env := &Env{f: f, vars: map[string]TV{}, pkg: sf.Pkg, st: f.root, old: f.root}
		f.fact(f.trBool(env, ax.E))
	}
}

// ---------- extern pure functions used in specs ----------

func (f *FnVC) trExternPure(env *Env, name string, argsE []SExpr) TV {
	return f.trExternPureIdx(env, name, argsE, 0)
}

func (f *FnVC) trExternPureIdx(env *Env, name string, argsE []SExpr, idx int) TV {
	ct := f.g.findExtern(name)
	if ct == nil || !ct.Pure {
		sfail("%s is not a pure extern function (declare it in externs/*.spec with 'pure')", name)
	}
	var args []TV
	for _, a := range argsE {
		args = append(args, f.trExpr(env, a))
	}
	res := f.pureApp(ct, args, nil)
	if len(res) <= idx {
		sfail("%s has no result %d", name, idx)
	}
	if env.st != nil && env.st.kind == stParam {
		// inside the definition of a recursive spec function the arguments are the function's formal parameters:
		// nothing can be asserted about them there (the extern's facts are assumed where the function is applied)
	} else if env.inQuant == 0 {
		f.assumeExternEnsures(ct, args, res, env.st)
	} else {
		f.pureAxioms(ct, args, env.st)
	}
	return res[idx]
}

func (f *FnVC) pureApp(ct *Contract, args []TV, sig *types.Signature) []TV {
	var as, ss []string
	for i, a := range args {
		if i < len(ct.Params) {
			want := f.externParamTV(ct, i)
			if want.Sort != "" {
				a, _ = f.coerce(a, want)
			}
		}
		as = append(as, a.T)
		ss = append(ss, a.Sort)
	}
	var out []TV
	n := len(ct.Results)
	if sig != nil {
		n = sig.Results().Len()
	}
	for i := 0; i < n; i++ {
		var ty types.Type
		if sig != nil {
			ty = sig.Results().At(i).Type()
		} else {
			ty = f.g.resolveType(ct.Results[i].Type, "", f.pkgPath())
		}
		so := f.sorts.sortOf(ty)
		fn := f.declFun(fmt.Sprintf("ext_%s_%d", sanitize(ct.Key), i), ss, so)
		out = append(out, TV{sApp(fn, as...), ty, so})
	}
	return out
}

func (f *FnVC) externParamTV(ct *Contract, i int) TV {
	ty := f.g.resolveType(ct.Params[i].Type, "", f.pkgPath())
	if ty == nil {
		return TV{}
	}
	return TV{"", ty, f.sorts.sortOf(ty)}
}

func (f *FnVC) assumeExternEnsures(ct *Contract, args []TV, res []TV, st *State) {
	env := &Env{f: f, vars: map[string]TV{}, st: st, old: st, pkg: f.pkgPath()}
	for i, a := range args {
		if i < len(ct.Params) && ct.Params[i].Name != "" {
			if a.Ty == nil {
				a.Ty = f.externParamTV(ct, i).Ty
			}
			env.vars[ct.Params[i].Name] = a
		}
	}
	for i, r := range res {
		if i < len(ct.Results) && ct.Results[i].Name != "" {
			env.vars[ct.Results[i].Name] = r
		}
		env.vars[fmt.Sprintf("result%d", i)] = r
	}
	if len(res) == 1 {
		env.vars["result"] = res[0]
	}
	for _, r := range res {
		f.typeFacts(r, true)
	}
	f.trusted["extern "+ct.Key] = true
	for _, e := range ct.Ensures {
		f.fact(f.trBool(env, e.E))
	}
}

// litElems: for  string(bytes) == "literal"  spell out the element equalities (they follow from the
// string axioms, but solvers do not find the instantiations when the bytes are indexed symbolically).
func (f *FnVC) litElems(a, b string) string {
	if !strings.HasPrefix(a, "(sfromb ") {
		return "true"
	}
	var lit string
	found := false
	for s, n := range f.lits {
		if n == b {
			lit, found = s, true
		}
	}
	if !found || len(lit) > 64 {
		return "true"
	}
	toks := sexpTokens(a)
	pos := 0
	var parse func() interface{}
	parse = func() interface{} {
		t := toks[pos]
		pos++
		if t == "(" {
			var l []interface{}
			for pos < len(toks) && toks[pos] != ")" {
				l = append(l, parse())
			}
			pos++
			return l
		}
		return t
	}
	l, ok := parse().([]interface{})
	if !ok || len(l) != 4 {
		return "true"
	}
	arr, off, n := sexpString(l[1]), sexpString(l[2]), sexpString(l[3])
	cs := []string{sEq(n, fmt.Sprint(len(lit)))}
	for i := 0; i < len(lit); i++ {
		cs = append(cs, sEq(sSel(arr, sIdx(off, fmt.Sprint(i))), fmt.Sprint(lit[i])))
	}
	return sAnd(cs...)
}

// splitGmap splits "gmap[K]V" into K and V.
func splitGmap(t string) (k, v string) {
	t = t[len("gmap["):]
	depth := 1
	for i, c := range t {
		if c == '[' {
			depth++
		} else if c == ']' {
			depth--
			if depth == 0 {
				return t[:i], t[i+1:]
			}
		}
	}
	return t, ""
}

func (f *FnVC) gmapSort(t, pkg string) string {
	if !strings.HasPrefix(t, "gmap[") {
		ty := f.g.resolveType(t, pkg, f.pkgPath())
		if ty == nil {
			sfail("ghost map: cannot resolve type %s", t)
		}
		return f.sorts.sortOf(ty)
	}
	k, v := splitGmap(t)
	return "(Array " + f.gmapSort(k, pkg) + " " + f.gmapSort(v, pkg) + ")"
}

// pureAxioms: when a pure extern is applied under a quantifier its ensures cannot be instantiated on the
// ground arguments; state them once as universally quantified axioms triggered by the application.
func (f *FnVC) pureAxioms(ct *Contract, args []TV, st *State) {
	var sorts []string
	for _, a := range args {
		sorts = append(sorts, a.Sort)
	}
	key := "pureax:" + ct.Key + ":" + strings.Join(sorts, ",") + ":" + fmt.Sprint(st == f.root)
	if f.declSet[key] || len(ct.Ensures) == 0 {
		return
	}
	f.declSet[key] = true
	var binds []string
	var qargs []TV
	var guards []string
	for i, a := range args {
		n := fmt.Sprintf("x%d", i)
		binds = append(binds, "("+n+" "+a.Sort+")")
		ty := a.Ty
		if i < len(ct.Params) {
			if p := f.externParamTV(ct, i); p.Ty != nil {
				ty = p.Ty
			}
		}
		qargs = append(qargs, TV{n, ty, a.Sort})
		if a.Sort != "Int" {
			guards = append(guards, f.typeInv(n, ty)...)
		}
	}
	res := f.pureApp(ct, qargs, nil)
	env := &Env{f: f, vars: map[string]TV{}, st: st, old: st, pkg: f.pkgPath(), inQuant: 1}
	for i, a := range qargs {
		if i < len(ct.Params) && ct.Params[i].Name != "" {
			env.vars[ct.Params[i].Name] = a
		}
	}
	for i, r := range res {
		if i < len(ct.Results) && ct.Results[i].Name != "" {
			env.vars[ct.Results[i].Name] = r
		}
	}
	if len(res) == 1 {
		env.vars["result"] = res[0]
	}
	var pats []string
	for _, r := range res {
		pats = append(pats, r.T)
	}
	for _, e := range ct.Ensures {
		body := f.trBool(env, e.E)
		for _, r := range res {
			body = sAnd(append(f.typeInv(r.T, r.Ty), body)...)
		}
		f.qfacts = append(f.qfacts, "(forall ("+strings.Join(binds, " ")+") (! "+sImp(sAnd(guards...), body)+" :pattern ("+pats[0]+")))")
	}
}
