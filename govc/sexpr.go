package main

// Contract expression language: Go-like expressions plus
//   a ==> b, a <==> b, forall x T, y T :: e, exists x T :: e, old(e),
//   c ? a : b, x[lo:hi], x.f, f(args), pkg.Name, literals.
// Parsed by a small Pratt parser into SExpr trees.

import (
	"fmt"
	"strconv"
	"strings"
	"unicode"
)

type SExpr interface{}

type (
	SIdent struct{ Name string }
	SInt   struct{ Val string } // decimal, arbitrary precision (text)
	SReal  struct{ Val string }
	SStr   struct{ Val string }
	SBool  struct{ Val bool }
	SNil   struct{}
	SBin   struct {
		Op   string
		L, R SExpr
	}
	SUn struct {
		Op string
		X  SExpr
	}
	SCall struct {
		Fun  SExpr
		Args []SExpr
	}
	SIndex struct{ X, I SExpr }
	SSlice struct{ X, Lo, Hi SExpr }
	SField struct {
		X    SExpr
		Name string
	}
	SQuant struct {
		Forall bool
		Vars   []SVar
		Body   SExpr
	}
	SIte struct{ C, A, B SExpr }
	SOld struct{ X SExpr }
	// SType is a parsed type expression used in conversions / spec fun signatures.
	SVar struct {
		Name string
		Type string // Go type text ("int" default)
	}
)

type tok struct {
	k   string // "id","int","real","str","chr","op","eof"
	s   string
	pos int
}

func lexSpec(src string) ([]tok, error) {
	var out []tok
	i := 0
	rs := []rune(src)
	for i < len(rs) {
		c := rs[i]
		switch {
		case unicode.IsSpace(c):
			i++
		case unicode.IsLetter(c) || c == '_' || c == '$':
			j := i
			for j < len(rs) && (unicode.IsLetter(rs[j]) || unicode.IsDigit(rs[j]) || rs[j] == '_' || rs[j] == '$') {
				j++
			}
			out = append(out, tok{"id", string(rs[i:j]), i})
			i = j
		case unicode.IsDigit(c):
			j := i
			isReal := false
			if c == '0' && j+1 < len(rs) && (rs[j+1] == 'x' || rs[j+1] == 'X') {
				j += 2
				for j < len(rs) && (unicode.IsDigit(rs[j]) || strings.ContainsRune("abcdefABCDEF", rs[j])) {
					j++
				}
				v, err := strconv.ParseUint(string(rs[i+2:j]), 16, 64)
				if err != nil {
					return nil, err
				}
				out = append(out, tok{"int", strconv.FormatUint(v, 10), i})
				i = j
				continue
			}
			for j < len(rs) && (unicode.IsDigit(rs[j]) || (rs[j] == '.' && j+1 < len(rs) && unicode.IsDigit(rs[j+1]))) {
				if rs[j] == '.' {
					isReal = true
				}
				j++
			}
			if isReal {
				out = append(out, tok{"real", string(rs[i:j]), i})
			} else {
				out = append(out, tok{"int", string(rs[i:j]), i})
			}
			i = j
		case c == '"':
			j := i + 1
			for j < len(rs) && rs[j] != '"' {
				if rs[j] == '\\' {
					j++
				}
				j++
			}
			if j >= len(rs) {
				return nil, fmt.Errorf("unterminated string at %d", i)
			}
			s, err := strconv.Unquote(string(rs[i : j+1]))
			if err != nil {
				return nil, err
			}
			out = append(out, tok{"str", s, i})
			i = j + 1
		case c == '\'':
			j := i + 1
			for j < len(rs) && rs[j] != '\'' {
				if rs[j] == '\\' {
					j++
				}
				j++
			}
			if j >= len(rs) {
				return nil, fmt.Errorf("unterminated char at %d", i)
			}
			r, _, _, err := strconv.UnquoteChar(string(rs[i+1:j]), '\'')
			if err != nil {
				return nil, err
			}
			out = append(out, tok{"int", strconv.Itoa(int(r)), i})
			i = j + 1
		default:
			three := ""
			if i+2 < len(rs) {
				three = string(rs[i : i+3])
			}
			two := ""
			if i+1 < len(rs) {
				two = string(rs[i : i+2])
			}
			if three == "==>" {
				out = append(out, tok{"op", three, i})
				i += 3
			} else if i+3 < len(rs) && string(rs[i:i+4]) == "<==>" {
				out = append(out, tok{"op", "<==>", i})
				i += 4
			} else if two == "==" || two == "!=" || two == "<=" || two == ">=" || two == "&&" || two == "||" || two == "::" || two == ".." || two == "<<" || two == ">>" {
				out = append(out, tok{"op", two, i})
				i += 2
			} else if strings.ContainsRune("+-*/%<>!()[]{}.,:?&|=", c) {
				out = append(out, tok{"op", string(c), i})
				i++
			} else {
				return nil, fmt.Errorf("bad character %q at %d in %q", c, i, src)
			}
		}
	}
	out = append(out, tok{"eof", "", len(rs)})
	return out, nil
}

type sparser struct {
	toks []tok
	p    int
	src  string
}

func parseSpecExpr(src string) (e SExpr, err error) {
	toks, err := lexSpec(src)
	if err != nil {
		return nil, err
	}
	ps := &sparser{toks: toks, src: src}
	defer func() {
		if r := recover(); r != nil {
			if pe, ok := r.(parseErr); ok {
				err = fmt.Errorf("%s (in %q)", string(pe), src)
				return
			}
			panic(r)
		}
	}()
	e = ps.expr(0)
	if ps.peek().k != "eof" {
		ps.fail("unexpected %q", ps.peek().s)
	}
	return e, nil
}

type parseErr string

func (p *sparser) fail(f string, a ...interface{}) {
	panic(parseErr(fmt.Sprintf(f, a...) + fmt.Sprintf(" at %d", p.peek().pos)))
}
func (p *sparser) peek() tok { return p.toks[p.p] }
func (p *sparser) next() tok { t := p.toks[p.p]; p.p++; return t }
func (p *sparser) isOp(s string) bool {
	t := p.peek()
	return t.k == "op" && t.s == s
}
func (p *sparser) expectOp(s string) {
	if !p.isOp(s) {
		p.fail("expected %q got %q", s, p.peek().s)
	}
	p.next()
}

// binding powers
var binPrec = map[string]int{
	"<==>": 1, "==>": 2, "?": 3, "||": 4, "&&": 5,
	"==": 6, "!=": 6, "<": 6, "<=": 6, ">": 6, ">=": 6,
	"+": 7, "-": 7, "|": 7,
	"*": 8, "/": 8, "%": 8, "&": 8, "<<": 8, ">>": 8,
}

func (p *sparser) expr(minPrec int) SExpr {
	lhs := p.unary()
	for {
		t := p.peek()
		if t.k != "op" {
			break
		}
		prec, ok := binPrec[t.s]
		if !ok || prec < minPrec {
			break
		}
		p.next()
		switch t.s {
		case "==>":
			// right assoc
			rhs := p.expr(prec)
			lhs = SBin{"==>", lhs, rhs}
		case "?":
			a := p.expr(0)
			p.expectOp(":")
			b := p.expr(prec)
			lhs = SIte{lhs, a, b}
		default:
			rhs := p.expr(prec + 1)
			lhs = SBin{t.s, lhs, rhs}
		}
	}
	return lhs
}

func (p *sparser) unary() SExpr {
	t := p.peek()
	if t.k == "op" && (t.s == "!" || t.s == "-") {
		p.next()
		x := p.unary()
		return SUn{t.s, x}
	}
	if t.k == "id" && (t.s == "forall" || t.s == "exists") {
		p.next()
		var vars []SVar
		for {
			n := p.next()
			if n.k != "id" {
				p.fail("expected bound variable")
			}
			ty := "int"
			if !p.isOp(",") && !p.isOp("::") {
				ty = p.typeText()
			}
			vars = append(vars, SVar{n.s, ty})
			if p.isOp(",") {
				p.next()
				continue
			}
			break
		}
		p.expectOp("::")
		body := p.expr(0)
		return SQuant{t.s == "forall", vars, body}
	}
	return p.postfix(p.primary())
}

// typeText consumes a Go type (restricted: idents, dots, *, [], [N], map[K]V) and returns its text.
func (p *sparser) typeText() string {
	var sb strings.Builder
	for {
		t := p.peek()
		if t.k == "op" && t.s == "*" {
			sb.WriteString("*")
			p.next()
			continue
		}
		if t.k == "op" && t.s == "[" {
			p.next()
			sb.WriteString("[")
			if p.peek().k == "int" {
				sb.WriteString(p.next().s)
			}
			p.expectOp("]")
			sb.WriteString("]")
			continue
		}
		break
	}
	t := p.next()
	if t.k != "id" {
		p.fail("expected type name, got %q", t.s)
	}
	sb.WriteString(t.s)
	if t.s == "map" {
		p.expectOp("[")
		sb.WriteString("[" + p.typeText() + "]")
		p.expectOp("]")
		sb.WriteString(p.typeText())
		return sb.String()
	}
	if t.s == "interface" {
		p.expectOp("{")
		p.expectOp("}")
		sb.WriteString("{}")
		return sb.String()
	}
	for p.isOp(".") {
		p.next()
		n := p.next()
		sb.WriteString("." + n.s)
	}
	return sb.String()
}

func (p *sparser) primary() SExpr {
	t := p.next()
	switch t.k {
	case "int":
		return SInt{t.s}
	case "real":
		return SReal{t.s}
	case "str":
		return SStr{t.s}
	case "id":
		switch t.s {
		case "true":
			return SBool{true}
		case "false":
			return SBool{false}
		case "nil":
			return SNil{}
		case "old":
			p.expectOp("(")
			x := p.expr(0)
			p.expectOp(")")
			return SOld{x}
		case "elems", "mapsOf":
			if p.isOp("(") {
				p.next()
				ty := p.typeText()
				p.expectOp(")")
				return SCall{SIdent{t.s}, []SExpr{SIdent{ty}}}
			}
		case "if":
			c := p.expr(0)
			if n := p.next(); n.s != "then" {
				p.fail("expected then")
			}
			a := p.expr(0)
			if n := p.next(); n.s != "else" {
				p.fail("expected else")
			}
			b := p.expr(0)
			return SIte{c, a, b}
		}
		return SIdent{t.s}
	case "op":
		if t.s == "(" {
			x := p.expr(0)
			p.expectOp(")")
			return x
		}
		if t.s == "[" || t.s == "*" {
			// type conversion like []byte(x) or *T — only []T(x) supported
			p.p--
			ty := p.typeText()
			return SIdent{ty}
		}
	}
	p.p--
	p.fail("unexpected token %q", t.s)
	return nil
}

func (p *sparser) postfix(x SExpr) SExpr {
	for {
		t := p.peek()
		if t.k != "op" {
			return x
		}
		switch t.s {
		case ".":
			p.next()
			n := p.next()
			if n.k == "op" && n.s == "*" {
				x = SField{x, "*"}
				continue
			}
			if n.k != "id" {
				p.fail("expected field name")
			}
			x = SField{x, n.s}
		case "(":
			p.next()
			var args []SExpr
			for !p.isOp(")") {
				args = append(args, p.expr(0))
				if p.isOp(",") {
					p.next()
				}
			}
			p.expectOp(")")
			x = SCall{x, args}
		case "[":
			p.next()
			var lo, hi SExpr
			if p.isOp("*") && p.toks[p.p+1].s == "]" {
				p.next()
				p.expectOp("]")
				x = SIndex{x, SIdent{"*"}}
				continue
			}
			if !p.isOp(":") {
				lo = p.expr(0)
			}
			if p.isOp(":") {
				p.next()
				if !p.isOp("]") {
					hi = p.expr(0)
				}
				p.expectOp("]")
				x = SSlice{x, lo, hi}
			} else {
				p.expectOp("]")
				x = SIndex{x, lo}
			}
		default:
			return x
		}
	}
}

func sexprString(e SExpr) string {
	switch e := e.(type) {
	case SIdent:
		return e.Name
	case SInt:
		return e.Val
	case SReal:
		return e.Val
	case SStr:
		return strconv.Quote(e.Val)
	case SBool:
		return fmt.Sprint(e.Val)
	case SNil:
		return "nil"
	case SBin:
		return "(" + sexprString(e.L) + " " + e.Op + " " + sexprString(e.R) + ")"
	case SUn:
		return e.Op + sexprString(e.X)
	case SCall:
		var a []string
		for _, x := range e.Args {
			a = append(a, sexprString(x))
		}
		return sexprString(e.Fun) + "(" + strings.Join(a, ", ") + ")"
	case SIndex:
		return sexprString(e.X) + "[" + sexprString(e.I) + "]"
	case SSlice:
		lo, hi := "", ""
		if e.Lo != nil {
			lo = sexprString(e.Lo)
		}
		if e.Hi != nil {
			hi = sexprString(e.Hi)
		}
		return sexprString(e.X) + "[" + lo + ":" + hi + "]"
	case SField:
		return sexprString(e.X) + "." + e.Name
	case SQuant:
		q := "exists"
		if e.Forall {
			q = "forall"
		}
		var vs []string
		for _, v := range e.Vars {
			vs = append(vs, v.Name+" "+v.Type)
		}
		return "(" + q + " " + strings.Join(vs, ", ") + " :: " + sexprString(e.Body) + ")"
	case SIte:
		return "(" + sexprString(e.C) + " ? " + sexprString(e.A) + " : " + sexprString(e.B) + ")"
	case SOld:
		return "old(" + sexprString(e.X) + ")"
	}
	return fmt.Sprintf("%#v", e)
}
