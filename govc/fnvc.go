package main

import (
	"strconv"
	"fmt"
	"go/token"
	"go/types"
	"sort"
	"strings"

	"golang.org/x/tools/go/ssa"
)

// TV is a typed SMT term.
type TV struct {
	T    string
	Ty   types.Type // may be nil for spec-level values
	Sort string
}

type Obl struct {
	ID    int
	Fn    string
	Kind  string // panic.index, panic.nil, ensures, pre, inv.entry, inv.step, decreases, frame, cover, ...
	Text  string
	Cond  string
	Cover bool
	Pos   string
	Blk   int // block in which the obligation arises (-1: none)
	NFact int // number of facts generated before the obligation
	Prop  string // restrict to property (optional)
	// results
	Status     string // proved, failed, unknown, cover-ok, cover-fail
	Solver     string
	Ms         int64
	Model      string
	Output     string
	Assumed    bool   // may be assumed by later obligations
	SplitTerm  string // case split on this Int term over SplitLo..SplitHi (plus the out-of-range case)
	SplitLo    int
	SplitHi    int
	Known      *KnownFinding
	KnownErr   string
	Restricted *Obl
	Reproduced bool
	Input      string
	ReplayLog  string
	ReplaySrc  string
	PkgDir     string
}

func (o *Obl) Name() string { return o.Fn + " :: " + o.Kind + " :: " + o.Text }

type havocRec struct {
	heap, term string
	entry      *State
}

type loopInfo struct {
	head       *ssa.BasicBlock
	ord        int
	blocks     map[int]bool
	spec       *LoopSpec
	havocked   []havocRec
	names      map[string]ssa.Value
	addrNames  map[string]ssa.Value
	decHead    string // decreases term at head
	headState  *State
	entryState *State
	entryReach string
	backs      []backRec
	done       int
	firstObl   int
}

type backRec struct {
	st   *State
	edge string
}

type retPoint struct {
	st    *State
	reach string
	res   []TV
	pos   token.Pos
	block int
}

type FnVC struct {
	g            *Gen
	fn           *ssa.Function
	c            *Contract
	key          string
	sorts        *Sorts
	decls        []string
	declSet      map[string]bool
	heapSort     map[string]string
	facts        []string
	lemmaUsed    bool
	hintSeen     map[int]bool
	sliceSt      map[string]*State // slice values obtained through old(...): the state in which their elements are read
	factBlk      []int // block in which each fact was generated (-1: none)
	ancCache     map[int]map[int]bool
	qfacts       []string
	obls         []*Obl
	vals         map[ssa.Value]TV
	tuples       map[ssa.Value][]TV
	out          map[int]*State
	reach        map[int]string
	edge         map[[2]int]string // (pred index, succ position) -> cond
	loops        map[int]*loopInfo
	bwrites      map[int]map[string]bool
	ball         map[int]bool
	cur          *ssa.BasicBlock
	st           *State
	root         *State
	lits         map[string]string
	fresh        int
	warns        []string
	trusted      map[string]bool
	rets         []retPoint
	paramTV      map[string]TV
	specDefs     []string
	specDefined  map[string]*specFunInfo
	defers       []*ssa.Defer
	inQuant      int
	extraPre     []string
	bitInfoCache map[ssa.Value][3]int
	strAx        bool
	extPairs     map[string]bool
	extList      [][2]string
	tagList      []string
	tagTypes     map[string]types.Type       // type tag constant -> the concrete type it stands for
	ifaceAsserts map[string]*types.Interface // implements_<I> function -> interface asserted somewhere in this function
	closures     map[ssa.Value]*ssa.MakeClosure
	genErr       string
	ghostElem    map[string]types.Type
	ghostDesc    map[string]string
	elemRange    map[string][2]string
	heapGoType   map[string]types.Type
	pendingAlloc [][2]string
	ptrHeap      map[string][2]string
	heapAlias    map[string]string
	heapNextref  map[string]string
	extra        []*Obl
}

func (f *FnVC) warn(format string, a ...interface{}) {
	w := fmt.Sprintf(format, a...)
	for _, x := range f.warns {
		if x == w {
			return
		}
	}
	f.warns = append(f.warns, w)
}

func (f *FnVC) sym(name string) string {
	// quote symbol if needed
	for _, c := range name {
		if !(c >= 'a' && c <= 'z' || c >= 'A' && c <= 'Z' || c >= '0' && c <= '9' || c == '_' || c == '.' || c == '!') {
			return "|" + name + "|"
		}
	}
	return name
}

func (f *FnVC) declConst(name, sort string) string {
	s := f.sym(name)
	if !f.declSet[s] {
		f.declSet[s] = true
		f.decls = append(f.decls, fmt.Sprintf("(declare-const %s %s)", s, sort))
	}
	return s
}

func (f *FnVC) declFun(name string, args []string, res string) string {
	s := f.sym(name)
	if !f.declSet[s] {
		f.declSet[s] = true
		f.decls = append(f.decls, fmt.Sprintf("(declare-fun %s (%s) %s)", s, strings.Join(args, " "), res))
	}
	return s
}

func (f *FnVC) freshConst(base, sort string) string {
	f.fresh++
	return f.declConst(fmt.Sprintf("%s!%d", base, f.fresh), sort)
}

func (f *FnVC) declHeapConst(h, version string) string {
	so, ok := f.heapSort[h]
	if !ok {
		panic("unknown heap " + h)
	}
	c := f.declConst(h+"@"+version, so)
	if rng, ok := f.elemRange[h]; ok {
		key := "rng:" + c
		if !f.declSet[key] {
			f.declSet[key] = true
			// every element of an integer element heap is within its type's range (needed under quantifiers,
			// where no ground type fact can be attached to the loaded term)
			f.qfacts = append(f.qfacts, "(forall ((r Int) (k Int)) (! (and (<= "+rng[0]+" (select (select "+c+" r) k)) (<= (select (select "+c+" r) k) "+rng[1]+")) :pattern ((select (select "+c+" r) k))))")
		}
	}
	return c
}

func (f *FnVC) fact(s string) {
	if s == "true" {
		return
	}
	f.facts = append(f.facts, s)
	b := -1
	if f.cur != nil {
		b = f.cur.Index
	}
	f.factBlk = append(f.factBlk, b)
}

// maxCapFor: an upper bound on the capacity of a slice of the given element type. The Go runtime on 64-bit
// platforms cannot allocate more than 2^48 bytes (maxAlloc), so cap*elemsize <= 2^48; zero-size elements keep 2^62.
func maxCapFor(elem types.Type) string {
	sz := gcSizes.Sizeof(elem)
	if sz <= 0 {
		return "4611686018427387904"
	}
	return strconv.FormatInt((int64(1)<<48)/sz, 10)
}

var gcSizes = types.SizesFor("gc", "amd64")

// ancestors returns the blocks from which block b can be reached (b included), over the full CFG.
func (f *FnVC) ancestors(b int) map[int]bool {
	if f.ancCache == nil {
		f.ancCache = map[int]map[int]bool{}
	}
	if a, ok := f.ancCache[b]; ok {
		return a
	}
	a := map[int]bool{b: true}
	work := []int{b}
	for len(work) > 0 {
		x := work[len(work)-1]
		work = work[:len(work)-1]
		for _, p := range f.fn.Blocks[x].Preds {
			if !a[p.Index] {
				a[p.Index] = true
				work = append(work, p.Index)
			}
		}
	}
	f.ancCache[b] = a
	return a
}

func (f *FnVC) gfact(s string) { // gated by current reach
	f.fact(sImp(f.curReach(), s))
}

func (f *FnVC) curReach() string {
	if f.cur == nil {
		return "true"
	}
	return f.reach[f.cur.Index]
}

func (f *FnVC) posStr(p token.Pos) string {
	if !p.IsValid() {
		return ""
	}
	ps := f.g.fset.Position(p)
	return fmt.Sprintf("%s:%d", strings.TrimPrefix(ps.Filename, f.g.repo+"/"), ps.Line)
}

func (f *FnVC) oblige(kind, text, cond string, pos token.Pos) *Obl {
	if strings.HasPrefix(kind, "panic.") && f.c != nil && !f.c.NoPanic {
		// the contract does not claim panic freedom: no obligation, and nothing is assumed either
		return &Obl{}
	}
	o := &Obl{ID: len(f.obls), Fn: f.key, Kind: kind, Text: text, Cond: sImp(f.curReach(), cond), Pos: f.posStr(pos), Assumed: true, Blk: -1}
	if f.cur != nil {
		o.Blk = f.cur.Index
	}
	o.NFact = len(f.facts)
	f.obls = append(f.obls, o)
	return o
}

func (f *FnVC) cover(text, cond string) {
	o := &Obl{ID: len(f.obls), Fn: f.key, Kind: "cover", Text: text, Cond: cond, Cover: true}
	f.obls = append(f.obls, o)
}

// ---------- heaps ----------

func (f *FnVC) regHeap(name, sort string) string {
	if old, ok := f.heapSort[name]; ok && old != sort {
		panic(fmt.Sprintf("heap %s sort clash %s vs %s", name, old, sort))
	}
	f.heapSort[name] = sort
	return name
}

func (f *FnVC) fieldHeap(st types.Type, idx int) (heap string, fld DTField) {
	dt := f.sorts.dtOf(st)
	fld = dt.Fields[idx]
	heap = f.regHeap("H_"+dt.Name[2:]+"_"+sanitize(fld.Name), "(Array Int "+fld.Sort+")")
	f.notePtrHeap(heap, fld.Ty, 1)
	return
}

// notePtrHeap remembers heaps whose values are references, for the closedness axiom (every stored reference
// was allocated before the heap version came into being).
func (f *FnVC) notePtrHeap(h string, valTy types.Type, depth int) {
	if f.ptrHeap == nil {
		f.ptrHeap = map[string][2]string{}
	}
	kind := ""
	switch valTy.Underlying().(type) {
	case *types.Pointer, *types.Map, *types.Chan:
		kind = "ref"
	case *types.Slice:
		kind = "slice"
	}
	if kind != "" {
		f.ptrHeap[h] = [2]string{kind, fmt.Sprint(depth)}
	}
}

func (f *FnVC) closednessAxiom(h, c, bound string) {
	info, ok := f.ptrHeap[h]
	if !ok {
		return
	}
	key := "closed:" + c
	if f.declSet[key] {
		return
	}
	f.declSet[key] = true
	val := "(select " + c + " r)"
	binds := "((r Int))"
	if info[1] == "2" {
		val = "(select (select " + c + " r) k)"
		binds = "((r Int) (k Int))"
	}
	ref := val
	if info[0] == "slice" {
		ref = "(s_ref " + val + ")"
	}
	f.qfacts = append(f.qfacts, "(forall "+binds+" (! (< "+ref+" "+bound+") :pattern ("+val+")))")
}

func (f *FnVC) elemHeap(elem types.Type) string {
	h := f.regHeap("E_"+shortTypeName(elem), "(Array Int (Array Int "+f.sorts.sortOf(elem)+"))")
	f.notePtrHeap(h, elem, 2)
	if lo, hi, ok := intRange(elem); ok {
		if f.elemRange == nil {
			f.elemRange = map[string][2]string{}
		}
		f.elemRange[h] = [2]string{sBig(lo), sBig(hi)}
	}
	return h
}

func (f *FnVC) cellHeap(t types.Type) string {
	return f.regHeap("C_"+shortTypeName(t), "(Array Int "+f.sorts.sortOf(t)+")")
}

func (f *FnVC) mapHeaps(m *types.Map) (mv, md string) {
	ks, vs := f.sorts.sortOf(m.Key()), f.sorts.sortOf(m.Elem())
	n := shortTypeName(m.Key()) + "_" + shortTypeName(m.Elem())
	mv = f.regHeap("MV_"+n, "(Array Int (Array "+ks+" "+vs+"))")
	md = f.regHeap("MD_"+n, "(Array Int (Array "+ks+" Bool))")
	return
}

func (f *FnVC) globalHeap(g *ssa.Global) string {
	t := g.Type().(*types.Pointer).Elem()
	h := f.regHeap("G_"+sanitize(g.Pkg.Pkg.Name()+"_"+g.Name()), f.sorts.sortOf(t))
	if f.heapGoType == nil {
		f.heapGoType = map[string]types.Type{}
	}
	f.heapGoType[h] = t
	return h
}

func (f *FnVC) ghostHeap(name string) (string, types.Type, bool) {
	gv, ok := f.g.specs.Ghosts[name]
	if !ok {
		return "", nil, false
	}
	if strings.HasPrefix(gv.Type, "gmap[") {
		return f.regHeap("Gh_"+name, f.gmapSort(gv.Type, gv.Pkg)), nil, true
	}
	ty := f.g.resolveType(gv.Type, gv.Pkg, f.pkgPath())
	so := "Int"
	if gv.Type == "seq" {
		so = "(Array Int Int)"
	} else if ty != nil {
		so = f.sorts.sortOf(ty)
	}
	return f.regHeap("Gh_"+name, so), ty, true
}

func (f *FnVC) gmapTypes(gv *GhostVar) (k, v types.Type) {
	t := gv.Type[len("gmap["):]
	depth := 1
	for i, c := range t {
		if c == '[' {
			depth++
		} else if c == ']' {
			depth--
			if depth == 0 {
				k = f.g.resolveType(t[:i], gv.Pkg, f.pkgPath())
				v = f.g.resolveType(t[i+1:], gv.Pkg, f.pkgPath())
				break
			}
		}
	}
	if k == nil || v == nil {
		sfail("ghost var %s: cannot resolve type %s", gv.Name, gv.Type)
	}
	return
}

func (f *FnVC) pkgPath() string {
	if f.fn != nil && f.fn.Pkg != nil {
		return f.fn.Pkg.Pkg.Path()
	}
	if f.c != nil {
		return f.c.Pkg
	}
	return ""
}

func (f *FnVC) recordWrite(h string) {
	if f.cur == nil {
		return
	}
	m := f.bwrites[f.cur.Index]
	if m == nil {
		m = map[string]bool{}
		f.bwrites[f.cur.Index] = m
	}
	m[h] = true
}

func (f *FnVC) setHeap(h, term string) {
	if len(term) > 160 {
		// name the new heap version instead of inlining ever-growing store chains
		c := f.freshConst(h+"_v", f.heapSort[h])
		f.fact(sEq(c, term))
		term = c
	}
	f.st.set(h, term)
	f.heapNextref[term] = f.st.get("$nextref")
	f.recordWrite(h)
}

// ---------- locations ----------

type step struct {
	sel string   // array index term (if non-empty)
	fld *DTField // datatype field (if sel empty)
	dt  *DT
}

type Loc struct {
	heap  string
	steps []step
	ty    types.Type // type of the located value
	multi bool       // whole struct behind a pointer: composite of field heaps
	ref   string     // for multi
}

func (f *FnVC) loadSteps(base string, steps []step) string {
	t := base
	for _, s := range steps {
		if s.sel != "" {
			t = sSel(t, s.sel)
		} else {
			t = sApp(s.fld.Acc, t)
		}
	}
	return t
}

func (f *FnVC) storeSteps(base string, steps []step, v string) string {
	if len(steps) == 0 {
		return v
	}
	s := steps[0]
	if s.sel != "" {
		return sStore(base, s.sel, f.storeSteps(sSel(base, s.sel), steps[1:], v))
	}
	var args []string
	for i := range s.dt.Fields {
		fl := &s.dt.Fields[i]
		if fl.Acc == s.fld.Acc {
			args = append(args, f.storeSteps(sApp(fl.Acc, base), steps[1:], v))
		} else {
			args = append(args, sApp(fl.Acc, base))
		}
	}
	return sApp("mk_"+s.dt.Name, args...)
}

func (f *FnVC) loadLoc(l Loc, st *State) string {
	if l.multi {
		dt := f.sorts.dtOf(l.ty)
		var args []string
		for i := range dt.Fields {
			h, _ := f.fieldHeap(l.ty, i)
			args = append(args, sSel(st.get(h), l.ref))
		}
		return sApp("mk_"+dt.Name, args...)
	}
	return f.loadSteps(st.get(l.heap), l.steps)
}

func (f *FnVC) storeLoc(l Loc, v string) {
	if l.multi {
		dt := f.sorts.dtOf(l.ty)
		for i := range dt.Fields {
			h, fl := f.fieldHeap(l.ty, i)
			f.setHeap(h, sStore(f.st.get(h), l.ref, sApp(fl.Acc, v)))
		}
		return
	}
	f.setHeap(l.heap, f.storeSteps(f.st.get(l.heap), l.steps, v))
}

// locOfPtr: the location a pointer-typed term (an Int ref) of static type *T designates.
func (f *FnVC) locOfRef(ref string, elem types.Type) Loc {
	switch u := elem.Underlying().(type) {
	case *types.Struct:
		_ = u
		return Loc{multi: true, ref: ref, ty: elem}
	case *types.Array:
		return Loc{heap: f.elemHeap(u.Elem()), steps: []step{{sel: ref}}, ty: elem}
	}
	return Loc{heap: f.cellHeap(elem), steps: []step{{sel: ref}}, ty: elem}
}

// resolveLoc gives the location designated by a pointer-valued SSA value.
func (f *FnVC) resolveLoc(v ssa.Value) Loc {
	pt, ok := v.Type().Underlying().(*types.Pointer)
	if !ok {
		panic("resolveLoc on non-pointer " + v.String())
	}
	switch x := v.(type) {
	case *ssa.Global:
		return Loc{heap: f.globalHeap(x), ty: pt.Elem()}
	case *ssa.FieldAddr:
		st := x.X.Type().Underlying().(*types.Pointer).Elem()
		if f.isInterior(x.X) {
			base := f.resolveLoc(x.X)
			dt := f.sorts.dtOf(st)
			fl := &dt.Fields[x.Field]
			base.steps = append(append([]step{}, base.steps...), step{fld: fl, dt: dt})
			base.ty = fl.Ty
			return base
		}
		h, fl := f.fieldHeap(st, x.Field)
		return Loc{heap: h, steps: []step{{sel: f.val(x.X).T}}, ty: fl.Ty}
	case *ssa.IndexAddr:
		switch xt := x.X.Type().Underlying().(type) {
		case *types.Slice:
			s := f.val(x.X).T
			return Loc{heap: f.elemHeap(xt.Elem()), steps: []step{{sel: sApp("s_ref", s)}, {sel: sIdx(sApp("s_off", s), f.val(x.Index).T)}}, ty: xt.Elem()}
		case *types.Pointer:
			at := xt.Elem().Underlying().(*types.Array)
			if f.isInterior(x.X) {
				base := f.resolveLoc(x.X)
				base.steps = append(append([]step{}, base.steps...), step{sel: f.val(x.Index).T})
				base.ty = at.Elem()
				return base
			}
			return Loc{heap: f.elemHeap(at.Elem()), steps: []step{{sel: f.val(x.X).T}, {sel: f.val(x.Index).T}}, ty: at.Elem()}
		}
	}
	return f.locOfRef(f.val(v).T, pt.Elem())
}

// isInterior: pointer value that designates the inside of another object (struct-typed field or array field),
// which we resolve structurally instead of through an Int ref.
func (f *FnVC) isInteriorBase(v ssa.Value) bool {
	switch v.(type) {
	case *ssa.FieldAddr, *ssa.IndexAddr, *ssa.Global:
		return true
	}
	return false
}

func (f *FnVC) isInterior(v ssa.Value) bool {
	switch x := v.(type) {
	case *ssa.FieldAddr:
		return true
	case *ssa.IndexAddr:
		_ = x
		return true
	case *ssa.Global:
		return true
	}
	return false
}

// ---------- values ----------

func (f *FnVC) tv(t string, ty types.Type) TV { return TV{T: t, Ty: ty, Sort: f.sorts.sortOf(ty)} }

func (f *FnVC) val(v ssa.Value) TV {
	if tv, ok := f.vals[v]; ok {
		return tv
	}
	switch x := v.(type) {
	case *ssa.Const:
		tv := f.constTV(x)
		return tv
	case *ssa.Function:
		t := f.declConst("fn_"+sanitize(x.String()), "Int")
		tv := f.tv(t, x.Type())
		f.vals[v] = tv
		f.fact("(> " + t + " 0)")
		return tv
	case *ssa.Builtin:
		return f.tv("0", x.Type())
	case *ssa.Global:
		// address of a global used as a value
		t := f.declConst("addr_"+sanitize(x.String()), "Int")
		f.fact("(> " + t + " 0)")
		tv := f.tv(t, x.Type())
		f.vals[v] = tv
		return tv
	case *ssa.FieldAddr:
		if !f.isInteriorBase(x.X) {
			// address of a field used as a value (e.g. method call on an embedded struct field): a deterministic
			// function of the enclosing object's reference
			st := x.X.Type().Underlying().(*types.Pointer).Elem()
			dt := f.sorts.dtOf(st)
			fn := f.declFun("fptr_"+dt.Name[2:]+"_"+sanitize(dt.Fields[x.Field].Name), []string{"Int"}, "Int")
			t := sApp(fn, f.val(x.X).T)
			f.fact(sImp("(> "+f.val(x.X).T+" 0)", "(> "+t+" 0)"))
			tv := f.tv(t, v.Type())
			f.vals[v] = tv
			return tv
		}
		t := f.declConst("iptr_"+v.Name(), "Int")
		f.fact("(> " + t + " 0)")
		f.warn("interior pointer %s materialised as an opaque reference", v.Name())
		tv := f.tv(t, v.Type())
		f.vals[v] = tv
		return tv
	case *ssa.IndexAddr:
		if sl, ok := x.X.Type().Underlying().(*types.Slice); ok {
			// address of a slice element used as a value: a deterministic function of backing array and position
			fn := f.declFun("eptr_"+shortTypeName(sl.Elem()), []string{"Int", "Int"}, "Int")
			sv := f.val(x.X).T
			t := sApp(fn, "(s_ref "+sv+")", sIdx("(s_off "+sv+")", f.val(x.Index).T))
			f.fact("(> " + t + " 0)")
			tv := f.tv(t, v.Type())
			f.vals[v] = tv
			return tv
		}
		// materialised interior pointer: opaque ref
		t := f.declConst("iptr_"+v.Name(), "Int")
		f.fact("(> " + t + " 0)")
		f.warn("interior pointer %s materialised as an opaque reference", v.Name())
		tv := f.tv(t, v.Type())
		f.vals[v] = tv
		return tv
	}
	// declare lazily (params, free vars, phis, instruction results)
	name := "v_" + v.Name()
	if _, isP := v.(*ssa.Parameter); isP {
		name = "p_" + v.Name()
	}
	if _, isF := v.(*ssa.FreeVar); isF {
		name = "fv_" + v.Name()
	}
	tv := f.tv("", v.Type())
	tv.T = f.declConst(name, tv.Sort)
	f.vals[v] = tv
	switch v.(type) {
	case *ssa.Parameter, *ssa.FreeVar, *ssa.Phi, *ssa.Range:
		// values without a defining equation satisfy their type's invariant; values defined by an
		// equation get no unconditional fact (the defining operation may not execute on every path)
		f.typeFacts(tv, true)
	}
	return tv
}

// typeFacts adds the invariants every value of the type satisfies.
func (f *FnVC) typeFacts(tv TV, ground bool) {
	for _, s := range f.typeInv(tv.T, tv.Ty) {
		f.fact(s)
	}
}

func (f *FnVC) typeInv(t string, ty types.Type) []string {
	if ty == nil {
		return nil
	}
	var out []string
	if lo, hi, ok := intRange(ty); ok {
		out = append(out, "(<= "+sBig(lo)+" "+t+")", "(<= "+t+" "+sBig(hi)+")")
		return out
	}
	switch u := ty.Underlying().(type) {
	case *types.Array:
		if lo, hi, ok := intRange(u.Elem()); ok {
			out = append(out, "(forall ((k Int)) (! (and (<= "+sBig(lo)+" (select "+t+" k)) (<= (select "+t+" k) "+sBig(hi)+")) :pattern ((select "+t+" k))))")
		}
	case *types.Slice:
		mc := maxCapFor(u.Elem())
		out = append(out, "(<= 0 (s_off "+t+"))", "(<= 0 (s_len "+t+"))", "(<= (s_len "+t+") (s_cap "+t+"))", "(<= 0 (s_ref "+t+"))", "(<= (s_cap "+t+") "+mc+")", "(<= (s_off "+t+") "+mc+")",
			"(=> (= (s_ref "+t+") 0) (and (= (s_len "+t+") 0) (= (s_cap "+t+") 0) (= (s_off "+t+") 0)))")
	case *types.Basic:
		if u.Info()&types.IsString != 0 {
			out = append(out, "(<= 0 (slen "+t+"))", "(<= (slen "+t+") 4611686018427387904)")
		}
	case *types.Interface:
		out = append(out, "(<= 0 "+t+")")
		if nt, ok := ty.(*types.Named); ok && u.NumMethods() > 0 {
			// a non-nil value of a (non-empty) interface type has a dynamic type that implements it
			impl := f.declFun("implements_"+sanitize(typeKey(nt)), []string{"Int"}, "Bool")
			out = append(out, "(=> (not (= "+t+" 0)) ("+impl+" (typeof "+t+")))")
		}
	case *types.Pointer, *types.Map, *types.Chan, *types.Signature:
		out = append(out, "(<= 0 "+t+")")
	}
	return out
}

func (f *FnVC) strLit(s string) string {
	if s == "" {
		return "str_empty"
	}
	if n, ok := f.lits[s]; ok {
		return n
	}
	n := f.declConst(fmt.Sprintf("lit!%d", len(f.lits)), "Str")
	// distinctness from earlier literals
	for _, o := range sortedKeys(f.lits) {
		f.fact("(not (= " + n + " " + f.lits[o] + "))")
	}
	f.lits[s] = n
	f.fact(fmt.Sprintf("(= (slen %s) %d)", n, len(s)))
	f.fact("(not (= " + n + " str_empty))")
	if len(s) <= 80 {
		for i := 0; i < len(s); i++ {
			f.fact(fmt.Sprintf("(= (sat %s %d) %d)", n, i, s[i]))
		}
	}
	return n
}

func (f *FnVC) constTV(c *ssa.Const) TV {
	ty := c.Type()
	so := f.sorts.sortOf(ty)
	if c.Value == nil {
		return TV{T: f.sorts.zeroOf(ty), Ty: ty, Sort: so}
	}
	switch so {
	case "Bool":
		if c.Value.String() == "true" {
			return TV{"true", ty, so}
		}
		return TV{"false", ty, so}
	case "Int":
		if bi, ok := constBig(c.Value); ok {
			return TV{sBig(bi), ty, so}
		}
		return TV{"0", ty, so}
	case "Real":
		return TV{realLit(c.Value), ty, so}
	case "Str":
		return TV{f.strLit(constString(c.Value)), ty, so}
	}
	return TV{f.sorts.zeroOf(ty), ty, so}
}

// ---------- loops / CFG ----------

func (f *FnVC) isBackEdge(from, to *ssa.BasicBlock) bool { return to.Dominates(from) }

func (f *FnVC) findLoops() {
	f.loops = map[int]*loopInfo{}
	for _, b := range f.fn.Blocks {
		for _, s := range b.Succs {
			if f.isBackEdge(b, s) {
				li := f.loops[s.Index]
				if li == nil {
					li = &loopInfo{head: s, blocks: map[int]bool{s.Index: true}}
					f.loops[s.Index] = li
				}
				// natural loop: all blocks that reach b without passing through s
				var stack []*ssa.BasicBlock
				if !li.blocks[b.Index] {
					li.blocks[b.Index] = true
					stack = append(stack, b)
				}
				for len(stack) > 0 {
					x := stack[len(stack)-1]
					stack = stack[:len(stack)-1]
					for _, p := range x.Preds {
						if !li.blocks[p.Index] {
							li.blocks[p.Index] = true
							stack = append(stack, p)
						}
					}
				}
			}
		}
	}
	var heads []int
	for h := range f.loops {
		heads = append(heads, h)
	}
	sort.Ints(heads)
	for i, h := range heads {
		li := f.loops[h]
		li.ord = i + 1
		if f.c != nil {
			li.spec = f.c.Loops[li.ord]
		}
		if li.spec == nil {
			li.spec = &LoopSpec{}
		}
		f.varsAtHead(li)
		f.rangeIndexInvariant(li)
	}
}

// varsAtHead maps source variable names to the SSA value holding them at the loop head.
func (f *FnVC) varsAtHead(li *loopInfo) {
	li.names = map[string]ssa.Value{}
	li.addrNames = map[string]ssa.Value{}
	scan := func(b *ssa.BasicBlock, phisOnly bool) {
		for i := len(b.Instrs) - 1; i >= 0; i-- {
			switch x := b.Instrs[i].(type) {
			case *ssa.DebugRef:
				if phisOnly {
					continue
				}
				if x.Expr == nil {
					continue
				}
				obj := x.Object()
				if obj == nil {
					continue
				}
				if _, isVar := obj.(*types.Var); !isVar {
					continue
				}
				n := obj.Name()
				if x.IsAddr {
					if _, ok := li.addrNames[n]; !ok {
						if _, ok2 := li.names[n]; !ok2 {
							li.addrNames[n] = x.X
						}
					}
				} else if _, ok := li.names[n]; !ok {
					if _, ok2 := li.addrNames[n]; !ok2 {
						li.names[n] = dbgValue(x)
					}
				}
			case *ssa.Phi:
				if x.Comment != "" {
					if _, ok := li.names[x.Comment]; !ok {
						li.names[x.Comment] = x
					}
				}
			}
		}
	}
	// phis of the head first
	for _, in := range li.head.Instrs {
		if p, ok := in.(*ssa.Phi); ok && p.Comment != "" {
			li.names[p.Comment] = p
		}
	}
	for b := li.head.Idom(); b != nil; b = b.Idom() {
		scan(b, false)
	}
	for _, p := range f.fn.Params {
		if _, ok := li.names[p.Name()]; !ok {
			if _, ok2 := li.addrNames[p.Name()]; !ok2 {
				li.names[p.Name()] = p
			}
		}
	}
	for _, fv := range f.fn.FreeVars {
		if _, ok := li.addrNames[fv.Name()]; !ok {
			li.addrNames[fv.Name()] = fv
		}
	}
}

func (f *FnVC) order() []*ssa.BasicBlock {
	// reverse postorder ignoring back edges
	seen := map[int]bool{}
	var post []*ssa.BasicBlock
	var dfs func(b *ssa.BasicBlock)
	dfs = func(b *ssa.BasicBlock) {
		seen[b.Index] = true
		for _, s := range b.Succs {
			if f.isBackEdge(b, s) || seen[s.Index] {
				continue
			}
			dfs(s)
		}
		post = append(post, b)
	}
	dfs(f.fn.Blocks[0])
	for i, j := 0, len(post)-1; i < j; i, j = i+1, j-1 {
		post[i], post[j] = post[j], post[i]
	}
	return post
}

// mapcard: number of keys of a map domain (uninterpreted, per key sort; >= 0).
func (f *FnVC) mapcard(dom string, mdHeap string) string {
	so := f.heapSort[mdHeap] // (Array Int (Array K Bool))
	inner := strings.TrimSuffix(strings.TrimPrefix(so, "(Array Int "), ")")
	fn := f.declFun("mapcard_"+sanitize(inner), []string{inner}, "Int")
	t := sApp(fn, dom)
	f.fact("(>= " + t + " 0)")
	return t
}

// rangeIndexInvariant adds the obvious invariant of a compiler-generated range-over-slice loop:
//   -1 <= rangeindex < N   where the loop guard is rangeindex+1 < N and N is fixed before the loop.
// It is proved like any other invariant (entry and step obligations are generated).
func (f *FnVC) rangeIndexInvariant(li *loopInfo) {
	var phi *ssa.Phi
	for _, in := range li.head.Instrs {
		if p, ok := in.(*ssa.Phi); ok && p.Comment == "rangeindex" {
			phi = p
		}
	}
	if phi == nil {
		return
	}
	var inc *ssa.BinOp
	for _, in := range li.head.Instrs {
		if b, ok := in.(*ssa.BinOp); ok && b.Op == token.ADD && b.X == phi {
			inc = b
		}
	}
	iff, ok := li.head.Instrs[len(li.head.Instrs)-1].(*ssa.If)
	if inc == nil || !ok {
		return
	}
	cmp, ok := iff.Cond.(*ssa.BinOp)
	if !ok || cmp.Op != token.LSS || cmp.X != inc {
		return
	}
	if ins, isInstr := cmp.Y.(ssa.Instruction); isInstr && li.blocks[ins.Block().Index] {
		return // bound computed inside the loop
	}
	li.names["$rangelen"] = cmp.Y
	if call, ok := cmp.Y.(*ssa.Call); ok {
		if b, ok := call.Call.Value.(*ssa.Builtin); ok && b.Name() == "len" && len(call.Call.Args) == 1 {
			// the slice (or string) being ranged over, for loops over an unnamed expression
			li.names["rangeover"] = call.Call.Args[0]
		}
	}
	cp := *li.spec
	c, err := mkClause("-1 <= rangeindex && rangeindex < $rangelen")
	if err != nil {
		return
	}
	c.Text = "(auto) range index stays within -1..len-1"
	cp.Invariants = append([]Clause{c}, cp.Invariants...)
	li.spec = &cp
}
