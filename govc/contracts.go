package main

import (
	"bufio"
	"fmt"
	"os"
	"path/filepath"
	"sort"
	"strconv"
	"strings"
)

// Clause is one contract clause with its source text (used in obligation names).
type Clause struct {
	Text string
	E    SExpr
	Tag  string // optional label  `ensures [label] expr`
	Prop string // optional property restriction `@C10`
}

type SplitSpec struct {
	Var    string
	Lo, Hi int
}

type LoopSpec struct {
	Split      *SplitSpec
	Invariants []Clause
	Decreases  *Clause
	IterEns    []Clause // "iteration ensures"
	IterApply  []Clause // "iteration apply": lemma instances assumed at every back edge (old() = state at the loop head)
}

type Contract struct {
	Key       string // function key, RelString form
	Pkg       string // package path (for repo contracts) or "" for externs
	Extern    bool
	Trusted   bool // body not verified; contract assumed
	Pure      bool // extern: result is a function of the arguments
	NoHavoc   bool
	MayPanic  bool
	Props     []string
	Params    []SVar // for externs / spec: declared parameter names (optional)
	Results   []SVar
	Requires  []Clause
	Ensures   []Clause
	Assigns   []Clause // each a location expression
	HasAssign bool
	AssignsAll bool // "assigns *": no frame claimed; callers havoc everything
	Loops     map[int]*LoopSpec
	Replay    []string
	Strings   string
	File      string
	Line      int
	Fresh     bool   // extern: result is a freshly allocated object
	Calls     string // higher-order extern: name of closure param invoked
	Alias     string // name usable in specifications for a pure extern
	Aliases   map[string]int // alias name -> result index
	Conforms  string // copy the clauses of this (function type) contract
	Hints     []HintClause // intermediate assertions placed after a source statement
	Sets      []SetClause // ghost updates performed at return (assumed by callers, nothing to prove in the body)
	NoPanic   bool
	conformed bool
	DomainTrigger bool // "domain trigger": the exit fact of a map range ("every key has been visited") is also triggered by lookups in the map's domain
	OpaqueDiv bool // "opaque division": / and % by a non-constant integer divisor are uninterpreted in this function (facts about them come from lemmas only)
}

type HintClause struct {
	Where string // substring of the source line
	C     Clause
	Apply bool // C.E is a call  lemma(args): check the lemma's preconditions here, then assume its postconditions
}

type SetClause struct {
	Text   string
	Target SExpr // ghost var or ghostmap[index]
	Value  SExpr
}

type SpecFun struct {
	Name      string
	Params    []SVar
	Result    string
	Body      SExpr
	BodyText  string
	Decreases *Clause
	Rec       bool
	Uninterp  bool // declared without body
	Pkg       string
	Axioms    []Clause
}

type GhostVar struct {
	Name string
	Type string
	Pkg  string
}

type Lemma struct {
	Name     string
	Params   []SVar
	Requires []Clause
	Ensures  []Clause
	Pkg      string
	Induct   string // name of variable to do induction on (optional)
}

type SharedClause struct {
	Kind  string // "atomic"
	Type  string
	Field string
	Pkg   string
	Props []string
}

type Specs struct {
	Shared    []SharedClause
	Contracts map[string]*Contract // key: pkgpath + "." + funcKey   (externs: full name)
	SpecFuns  map[string]*SpecFun  // by name (global namespace)
	Ghosts    map[string]*GhostVar
	Lemmas    []*Lemma
	Axioms    []Clause
}

func newSpecs() *Specs {
	return &Specs{Contracts: map[string]*Contract{}, SpecFuns: map[string]*SpecFun{}, Ghosts: map[string]*GhostVar{}}
}

var clauseKeywords = map[string]bool{
	"func": true, "extern": true, "spec": true, "ghost": true, "lemma": true, "axiom": true,
	"requires": true, "ensures": true, "assigns": true, "loop": true, "props": true,
	"trusted": true, "pure": true, "maypanic": true, "replay": true, "strings": true,
	"fresh": true, "nohavoc": true, "opaque": true, "decreases": true, "induct": true, "calls": true, "alias": true, "conforms": true, "sets": true, "at": true, "shared": true,
}

type rawLine struct {
	text string
	file string
	line int
}

// loadSpecFile reads //@-prefixed lines (contract files in /repo) or plain lines (extern spec files).
func loadSpecLines(path string, prefixed bool) ([]rawLine, error) {
	f, err := os.Open(path)
	if err != nil {
		return nil, err
	}
	defer f.Close()
	var out []rawLine
	sc := bufio.NewScanner(f)
	sc.Buffer(make([]byte, 1<<20), 1<<20)
	n := 0
	for sc.Scan() {
		n++
		l := sc.Text()
		if prefixed {
			t := strings.TrimSpace(l)
			if !strings.HasPrefix(t, "//@") {
				continue
			}
			l = strings.TrimPrefix(t, "//@")
		}
		// strip trailing comment  " // ..."  (not inside quotes; keep it simple: require ' // ')
		if i := strings.Index(l, " // "); i >= 0 && !strings.Contains(l[:i], "\"") {
			l = l[:i]
		} else if strings.HasPrefix(strings.TrimSpace(l), "//") {
			l = ""
		}
		if strings.TrimSpace(l) == "" || strings.HasPrefix(strings.TrimSpace(l), "#") {
			continue
		}
		out = append(out, rawLine{l, path, n})
	}
	return out, sc.Err()
}

// group lines into clauses: a line whose first word is a keyword starts a new clause.
func groupClauses(lines []rawLine) []rawLine {
	var out []rawLine
	for _, l := range lines {
		fs := strings.Fields(l.text)
		if len(fs) == 0 {
			continue
		}
		kw := strings.ToLower(fs[0])
		if clauseKeywords[kw] || len(out) == 0 {
			out = append(out, rawLine{strings.TrimSpace(l.text), l.file, l.line})
		} else {
			out[len(out)-1].text += " " + strings.TrimSpace(l.text)
		}
	}
	return out
}

func mkClause(text string) (Clause, error) {
	text = strings.TrimSpace(text)
	c := Clause{}
	for {
		if strings.HasPrefix(text, "[") {
			j := strings.Index(text, "]")
			if j > 0 {
				c.Tag = text[1:j]
				text = strings.TrimSpace(text[j+1:])
				continue
			}
		}
		if strings.HasPrefix(text, "@") {
			fs := strings.Fields(text)
			c.Prop = fs[0][1:]
			text = strings.TrimSpace(text[len(fs[0]):])
			continue
		}
		break
	}
	c.Text = text
	if text == "nopanic" || text == "nothing" {
		c.E = SIdent{text}
		return c, nil
	}
	e, err := parseSpecExpr(text)
	if err != nil {
		return c, err
	}
	c.E = e
	return c, nil
}

// parseSig parses "name(a T, b T) (r T, err error)" or "name(a T) T" or just "name".
func parseSig(s string) (name string, params, results []SVar, err error) {
	s = strings.TrimSpace(s)
	// name may itself contain parens: (*T).M  — find the parameter list start: first '(' after the name part
	i := 0
	if strings.HasPrefix(s, "param:(") {
		i = strings.Index(s, ")") + 1
	} else if strings.HasPrefix(s, "(") {
		j := strings.Index(s, ")")
		i = j + 1
	}
	k := strings.Index(s[i:], "(")
	if k < 0 {
		return s, nil, nil, nil
	}
	name = strings.TrimSpace(s[:i+k])
	rest := s[i+k:]
	// find matching paren
	depth := 0
	end := -1
	for idx, c := range rest {
		if c == '(' {
			depth++
		} else if c == ')' {
			depth--
			if depth == 0 {
				end = idx
				break
			}
		}
	}
	if end < 0 {
		return "", nil, nil, fmt.Errorf("bad signature %q", s)
	}
	params = parseVarList(rest[1:end])
	res := strings.TrimSpace(rest[end+1:])
	if res != "" {
		if strings.HasPrefix(res, "(") && strings.HasSuffix(res, ")") {
			results = parseVarList(res[1 : len(res)-1])
		} else {
			results = []SVar{{"result", res}}
		}
	}
	return
}

func parseVarList(s string) []SVar {
	var out []SVar
	depth := 0
	start := 0
	var parts []string
	for i, c := range s {
		switch c {
		case '(', '[', '{':
			depth++
		case ')', ']', '}':
			depth--
		case ',':
			if depth == 0 {
				parts = append(parts, s[start:i])
				start = i + 1
			}
		}
	}
	parts = append(parts, s[start:])
	for _, p := range parts {
		p = strings.TrimSpace(p)
		if p == "" {
			continue
		}
		fs := strings.SplitN(p, " ", 2)
		if len(fs) == 1 {
			// only a type (unnamed) or only a name
			out = append(out, SVar{Name: "", Type: fs[0]})
		} else {
			out = append(out, SVar{Name: fs[0], Type: strings.TrimSpace(fs[1])})
		}
	}
	// Go style "a, b T": fill missing types from the right
	for i := len(out) - 1; i >= 0; i-- {
		if out[i].Name == "" && i+1 < len(out) && out[i].Type != "" && isIdent(out[i].Type) && out[i+1].Name != "" {
			// "a" followed by "b T"
			out[i].Name = out[i].Type
			out[i].Type = out[i+1].Type
		}
	}
	return out
}

func isIdent(s string) bool {
	for i, c := range s {
		if !(c == '_' || (c >= 'a' && c <= 'z') || (c >= 'A' && c <= 'Z') || (i > 0 && c >= '0' && c <= '9')) {
			return false
		}
	}
	return s != ""
}

func (sp *Specs) load(path string, prefixed bool, pkgPath string) error {
	lines, err := loadSpecLines(path, prefixed)
	if err != nil {
		return err
	}
	cls := groupClauses(lines)
	var cur *Contract
	var curFun *SpecFun
	var curLemma *Lemma
	for _, l := range cls {
		fs := strings.Fields(l.text)
		kw := strings.ToLower(fs[0])
		rest := strings.TrimSpace(l.text[len(fs[0]):])
		fail := func(err error) error { return fmt.Errorf("%s:%d: %v", l.file, l.line, err) }
		switch kw {
		case "func", "extern":
			name, params, results, err := parseSig(rest)
			if err != nil {
				return fail(err)
			}
			cur = &Contract{Key: name, Pkg: pkgPath, Extern: kw == "extern", Params: params, Results: results, Loops: map[int]*LoopSpec{}, File: l.file, Line: l.line}
			curFun, curLemma = nil, nil
			full := name
			if kw == "func" {
				full = pkgPath + "." + name
			}
			if _, dup := sp.Contracts[full]; dup {
				return fail(fmt.Errorf("duplicate contract for %s", full))
			}
			sp.Contracts[full] = cur
		case "spec":
			// spec fun name(params) T [decreases e] = body      | spec fun name(params) T   (uninterpreted)
			if len(fs) < 2 || fs[1] != "fun" {
				return fail(fmt.Errorf("expected 'spec fun'"))
			}
			rest = strings.TrimSpace(rest[len("fun"):])
			body := ""
			sig := rest
			if i := strings.Index(rest, " = "); i >= 0 {
				sig = rest[:i]
				body = rest[i+3:]
			}
			var dec *Clause
			opaque := false
			if strings.HasSuffix(strings.TrimSpace(sig), " opaque") {
				opaque = true
				sig = strings.TrimSuffix(strings.TrimSpace(sig), " opaque")
			}
			if i := strings.Index(sig, " decreases "); i >= 0 {
				c, err := mkClause(sig[i+len(" decreases "):])
				if err != nil {
					return fail(err)
				}
				dec = &c
				sig = sig[:i]
			}
			name, params, results, err := parseSig(sig)
			if err != nil {
				return fail(err)
			}
			sf := &SpecFun{Name: name, Params: params, Pkg: pkgPath, Decreases: dec, Rec: dec != nil || opaque}
			if len(results) == 1 {
				sf.Result = results[0].Type
			} else {
				return fail(fmt.Errorf("spec fun %s needs one result type", name))
			}
			if body == "" {
				sf.Uninterp = true
			} else {
				e, err := parseSpecExpr(body)
				if err != nil {
					return fail(err)
				}
				sf.Body = e
				sf.BodyText = body
			}
			if _, dup := sp.SpecFuns[name]; dup {
				return fail(fmt.Errorf("duplicate spec fun %s", name))
			}
			sp.SpecFuns[name] = sf
			cur, curLemma = nil, nil
			curFun = sf
		case "axiom":
			c, err := mkClause(rest)
			if err != nil {
				return fail(err)
			}
			if curFun != nil {
				curFun.Axioms = append(curFun.Axioms, c)
			} else {
				sp.Axioms = append(sp.Axioms, c)
			}
		case "ghost":
			// ghost var name T
			if len(fs) < 4 || fs[1] != "var" {
				return fail(fmt.Errorf("expected 'ghost var name T'"))
			}
			sp.Ghosts[fs[2]] = &GhostVar{Name: fs[2], Type: strings.Join(fs[3:], " "), Pkg: pkgPath}
		case "lemma":
			name, params, _, err := parseSig(rest)
			if err != nil {
				return fail(err)
			}
			curLemma = &Lemma{Name: name, Params: params, Pkg: pkgPath}
			sp.Lemmas = append(sp.Lemmas, curLemma)
			cur, curFun = nil, nil
		case "induct":
			if curLemma == nil {
				return fail(fmt.Errorf("induct outside lemma"))
			}
			curLemma.Induct = rest
		case "requires", "ensures":
			c, err := mkClause(rest)
			if err != nil {
				return fail(err)
			}
			if curLemma != nil {
				if kw == "requires" {
					curLemma.Requires = append(curLemma.Requires, c)
				} else {
					curLemma.Ensures = append(curLemma.Ensures, c)
				}
				continue
			}
			if cur == nil {
				return fail(fmt.Errorf("%s outside func", kw))
			}
			if kw == "requires" {
				cur.Requires = append(cur.Requires, c)
			} else {
				cur.Ensures = append(cur.Ensures, c)
				if c.Text == "nopanic" {
					cur.NoPanic = true
				}
			}
		case "assigns":
			if cur == nil {
				return fail(fmt.Errorf("assigns outside func"))
			}
			cur.HasAssign = true
			for _, part := range splitTop(rest) {
				part = strings.TrimSpace(part)
				if part == "*" {
					cur.AssignsAll = true
					continue
				}
				if part == "nothing" || part == "" {
					continue
				}
				c, err := mkClause(part)
				if err != nil {
					return fail(err)
				}
				cur.Assigns = append(cur.Assigns, c)
			}
		case "loop":
			if cur == nil || len(fs) < 3 {
				return fail(fmt.Errorf("bad loop clause"))
			}
			k, err := strconv.Atoi(fs[1])
			if err != nil {
				return fail(err)
			}
			ls := cur.Loops[k]
			if ls == nil {
				ls = &LoopSpec{}
				cur.Loops[k] = ls
			}
			what := fs[2]
			body := strings.TrimSpace(rest[strings.Index(rest, what)+len(what):])
			switch what {
			case "invariant":
				c, err := mkClause(body)
				if err != nil {
					return fail(err)
				}
				ls.Invariants = append(ls.Invariants, c)
			case "decreases":
				c, err := mkClause(body)
				if err != nil {
					return fail(err)
				}
				ls.Decreases = &c
			case "split":
				// split v in lo..hi
				fs2 := strings.Fields(body)
				if len(fs2) != 3 || fs2[1] != "in" {
					return fail(fmt.Errorf("expected: loop K split v in lo..hi"))
				}
				rng := strings.Split(fs2[2], "..")
				if len(rng) != 2 {
					return fail(fmt.Errorf("bad split range"))
				}
				lo, err1 := strconv.Atoi(rng[0])
				hi, err2 := strconv.Atoi(rng[1])
				if err1 != nil || err2 != nil || hi < lo || hi-lo > 64 {
					return fail(fmt.Errorf("bad split range"))
				}
				ls.Split = &SplitSpec{Var: fs2[0], Lo: lo, Hi: hi}
			case "iteration":
				if strings.HasPrefix(body, "apply ") {
					c, err := mkClause(strings.TrimSpace(strings.TrimPrefix(body, "apply")))
					if err != nil {
						return fail(err)
					}
					ls.IterApply = append(ls.IterApply, c)
					break
				}
				body = strings.TrimSpace(strings.TrimPrefix(body, "ensures"))
				c, err := mkClause(body)
				if err != nil {
					return fail(err)
				}
				ls.IterEns = append(ls.IterEns, c)
			default:
				return fail(fmt.Errorf("unknown loop clause %q", what))
			}
		case "props":
			if cur != nil {
				cur.Props = append(cur.Props, fs[1:]...)
			}
		case "trusted":
			if cur != nil {
				cur.Trusted = true
			}
		case "pure":
			if cur != nil {
				cur.Pure = true
			}
		case "nohavoc":
			if cur != nil {
				cur.NoHavoc = true
			}
		case "domain":
			if cur != nil && strings.TrimSpace(rest) == "trigger" {
				cur.DomainTrigger = true
			} else {
				return fail(fmt.Errorf("expected: domain trigger"))
			}
		case "opaque":
			if cur != nil && strings.TrimSpace(rest) == "division" {
				cur.OpaqueDiv = true
			} else {
				return fail(fmt.Errorf("expected: opaque division"))
			}
		case "fresh":
			if cur != nil {
				cur.Fresh = true
			}
		case "calls":
			if cur != nil {
				cur.Calls = rest
			}
		case "alias":
			if cur != nil {
				fs2 := strings.Fields(rest)
				idx := 0
				if len(fs2) > 1 {
					idx, _ = strconv.Atoi(fs2[1])
				}
				if cur.Aliases == nil {
					cur.Aliases = map[string]int{}
				}
				cur.Aliases[fs2[0]] = idx
				if cur.Alias == "" {
					cur.Alias = fs2[0]
				}
			}
		case "conforms":
			if cur != nil {
				cur.Conforms = rest
			}
		case "shared":
			// shared complete Type props Cxx ...   (every method of the type must be under contract)
			if len(fs) >= 3 && fs[1] == "complete" {
				sc := SharedClause{Kind: "complete", Type: fs[2], Pkg: pkgPath}
				for i := 3; i < len(fs); i++ {
					if fs[i] != "props" {
						sc.Props = append(sc.Props, fs[i])
					}
				}
				sp.Shared = append(sp.Shared, sc)
				cur, curFun, curLemma = nil, nil, nil
				break
			}
			// shared atomic Type.field props Cxx ...
			if len(fs) < 3 || fs[1] != "atomic" || !strings.Contains(fs[2], ".") {
				return fail(fmt.Errorf("expected: shared atomic Type.field [props ...]"))
			}
			tf := strings.SplitN(fs[2], ".", 2)
			sc := SharedClause{Kind: "atomic", Type: tf[0], Field: tf[1], Pkg: pkgPath}
			for i := 3; i < len(fs); i++ {
				if fs[i] != "props" {
					sc.Props = append(sc.Props, fs[i])
				}
			}
			sp.Shared = append(sp.Shared, sc)
			cur, curFun, curLemma = nil, nil, nil
		case "at":
			// at "source text" assert EXPR
			if cur == nil {
				return fail(fmt.Errorf("at outside func"))
			}
			q1 := strings.Index(rest, "\"")
			kw2 := "\" assert "
			q2 := strings.Index(rest[q1+1:], kw2)
			isApply := false
			if q2 < 0 {
				kw2 = "\" apply "
				q2 = strings.Index(rest[q1+1:], kw2)
				isApply = true
			}
			if q1 != 0 || q2 < 0 {
				return fail(fmt.Errorf("expected: at \"source text\" assert EXPR  |  at \"source text\" apply lemma(args)"))
			}
			where := strings.ReplaceAll(rest[1:1+q2], "\\\"", "\"")
			c, err := mkClause(rest[1+q2+len(kw2):])
			if err != nil {
				return fail(err)
			}
			cur.Hints = append(cur.Hints, HintClause{Where: where, C: c, Apply: isApply})
		case "sets":
			if cur == nil {
				return fail(fmt.Errorf("sets outside func"))
			}
			i := strings.Index(rest, " = ")
			if i < 0 {
				return fail(fmt.Errorf("expected: sets ghost = expr"))
			}
			te, err := parseSpecExpr(rest[:i])
			if err != nil {
				return fail(err)
			}
			ve, err := parseSpecExpr(rest[i+3:])
			if err != nil {
				return fail(err)
			}
			cur.Sets = append(cur.Sets, SetClause{Text: rest, Target: te, Value: ve})
		case "maypanic":
			if cur != nil {
				cur.MayPanic = true
			}
		case "replay":
			if cur != nil {
				cur.Replay = append(cur.Replay, rest)
			}
		case "strings":
			if cur != nil {
				cur.Strings = rest
			}
		default:
			return fail(fmt.Errorf("unknown clause keyword %q", fs[0]))
		}
	}
	return nil
}

func splitTop(s string) []string {
	var parts []string
	depth, start := 0, 0
	for i, c := range s {
		switch c {
		case '(', '[', '{':
			depth++
		case ')', ']', '}':
			depth--
		case ',':
			if depth == 0 {
				parts = append(parts, s[start:i])
				start = i + 1
			}
		}
	}
	return append(parts, s[start:])
}

// loadAllSpecs loads extern spec files from externDir and contract files of the given package dirs.
func loadAllSpecs(externDir string, repo string, pkgDirs map[string]string) (*Specs, error) {
	sp := newSpecs()
	files, _ := filepath.Glob(filepath.Join(externDir, "*.spec"))
	sort.Strings(files)
	for _, f := range files {
		if err := sp.load(f, false, ""); err != nil {
			return nil, err
		}
	}
	var pkgs []string
	for p := range pkgDirs {
		pkgs = append(pkgs, p)
	}
	sort.Strings(pkgs)
	for _, p := range pkgs {
		cf := filepath.Join(pkgDirs[p], "contracts_verif.go")
		if _, err := os.Stat(cf); err != nil {
			continue
		}
		if err := sp.load(cf, true, p); err != nil {
			return nil, err
		}
	}
	return sp, nil
}

// resolveConforms copies the clauses of function-type contracts into the contracts that conform to them.
func (sp *Specs) resolveConforms() error {
	for k, c := range sp.Contracts {
		if c.Conforms == "" || c.conformed {
			continue
		}
		base, ok := sp.Contracts[c.Pkg+"."+c.Conforms]
		if !ok {
			return fmt.Errorf("%s conforms to unknown contract %s", k, c.Conforms)
		}
		c.Requires = append(append([]Clause{}, base.Requires...), c.Requires...)
		c.Ensures = append(append([]Clause{}, base.Ensures...), c.Ensures...)
		c.Assigns = append(append([]Clause{}, base.Assigns...), c.Assigns...)
		c.Sets = append(append([]SetClause{}, base.Sets...), c.Sets...)
		c.NoPanic = c.NoPanic || base.NoPanic
		c.HasAssign = c.HasAssign || base.HasAssign
		c.AssignsAll = c.AssignsAll || base.AssignsAll
		c.conformed = true
	}
	return nil
}

// propListed: a clause tag @C01,C14 lists the properties it belongs to.
func propListed(tag, prop string) bool {
	for _, p := range strings.Split(tag, ",") {
		if strings.TrimSpace(p) == prop {
			return true
		}
	}
	return false
}
