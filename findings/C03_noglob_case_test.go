package route

// Demonstration for the C03 finding "with host globbing disabled an upper-case request host matched no route".
import (
	"bytes"
	"net/http"
	"net/url"
	"testing"
)

func TestVerifNoGlobHostCase(t *testing.T) {
	tbl, err := NewTable(bytes.NewBufferString("route add svc foo.com/ http://127.0.0.1:80"))
	if err != nil {
		t.Fatal(err)
	}
	for _, host := range []string{"foo.com", "FOO.com", "Foo.Com:80"} {
		req := &http.Request{Host: host, URL: &url.URL{Path: "/"}, Header: http.Header{}}
		if tg := tbl.Lookup(req, "", rrPicker, prefixMatcher, NewGlobCache(10), true); tg == nil {
			t.Errorf("host %q: no route with globbing disabled", host)
		}
	}
}
