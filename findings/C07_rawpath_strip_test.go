package proxy

// Demonstration for the open C07 finding "the client's percent-encoding is lost when the route strips or prepends a path".
import (
	"net/http"
	"net/http/httptest"
	"net/url"
	"testing"

	"github.com/fabiolb/fabio/config"
	"github.com/fabiolb/fabio/route"
)

func TestVerifRawPathWithStrip(t *testing.T) {
	var got string
	server := httptest.NewServer(http.HandlerFunc(func(w http.ResponseWriter, r *http.Request) { got = r.RequestURI }))
	defer server.Close()
	u, _ := url.Parse(server.URL)
	proxy := httptest.NewServer(&HTTPProxy{
		Config:    config.Proxy{},
		Transport: http.DefaultTransport,
		Lookup: func(r *http.Request) *route.Target {
			return &route.Target{URL: u, StripPath: "/foo"}
		},
	})
	defer proxy.Close()
	resp, err := http.Get(proxy.URL + "/foo/a%2Fb")
	if err != nil {
		t.Fatal(err)
	}
	resp.Body.Close()
	if got != "/a%2Fb" {
		t.Fatalf("upstream saw %q, want /a%%2Fb (client's percent-encoding kept)", got)
	}
}
