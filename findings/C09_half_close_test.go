package tcp

// Demonstration for the open C09 finding "the tunnel is torn down as soon as ONE direction finishes": a client that
// half-closes after sending its request never receives the reply, because ServeTCP returns (closing both
// connections) after the first copy direction ends instead of awaiting both.
import (
	"io"
	"net"
	"net/url"
	"testing"
	"time"

	"github.com/fabiolb/fabio/route"
)

func TestVerifHalfCloseStillGetsReply(t *testing.T) {
	up, err := net.Listen("tcp", "127.0.0.1:0")
	if err != nil {
		t.Fatal(err)
	}
	defer up.Close()
	go func() {
		c, err := up.Accept()
		if err != nil {
			return
		}
		defer c.Close()
		io.ReadAll(c) // read the whole request (until the client's FIN)
		time.Sleep(100 * time.Millisecond)
		c.Write([]byte("REPLY"))
	}()
	l, err := net.Listen("tcp", "127.0.0.1:0")
	if err != nil {
		t.Fatal(err)
	}
	defer l.Close()
	_, port, _ := net.SplitHostPort(l.Addr().String())
	p := &Proxy{DialTimeout: time.Second, Lookup: func(h string) *route.Target {
		if h != ":"+port {
			return nil
		}
		return &route.Target{URL: &url.URL{Host: up.Addr().String()}}
	}}
	go func() {
		c, err := l.Accept()
		if err == nil {
			p.ServeTCP(c)
		}
	}()
	c, err := net.Dial("tcp", l.Addr().String())
	if err != nil {
		t.Fatal(err)
	}
	defer c.Close()
	c.Write([]byte("REQUEST"))
	c.(*net.TCPConn).CloseWrite()
	c.SetReadDeadline(time.Now().Add(2 * time.Second))
	b, _ := io.ReadAll(c)
	if string(b) != "REPLY" {
		t.Fatalf("client received %q, want %q", b, "REPLY")
	}
}
