package route

// Demonstration: a host pattern that is not a valid glob is accepted by the route parser and makes every
// lookup panic (glob.MustCompile) once host globbing is enabled.
import (
	"bytes"
	"net/http"
	"net/url"
	"testing"
)

func TestVerifBadHostGlob(t *testing.T) {
	tbl, err := NewTable(bytes.NewBufferString("route add svc [a/ http://127.0.0.1:80"))
	if err != nil {
		t.Skipf("parser rejects the route: %v", err)
	}
	defer func() {
		if r := recover(); r != nil {
			t.Fatalf("lookup panicked: %v", r)
		}
	}()
	req := &http.Request{Host: "foo.com", URL: &url.URL{Path: "/"}, Header: http.Header{}}
	tbl.Lookup(req, "", rrPicker, prefixMatcher, NewGlobCache(10), false)
}
