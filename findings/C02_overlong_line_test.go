package route

// Demonstration for the C02 finding "a line longer than 64 KB silently ends the configuration": Parse never looked at
// scanner.Err(), so everything from the over-long line on was dropped WITHOUT an error and NewTable returned a partial
// table, which the update loop installs in place of the complete one.
import (
	"bytes"
	"strings"
	"testing"
)

func TestVerifOverlongLine(t *testing.T) {
	text := "route add a /a http://1.1.1.1:80/\n# " + strings.Repeat("x", 70000) + "\nroute add b /b http://2.2.2.2:80/\n"
	tb, err := NewTable(bytes.NewBufferString(text))
	if err != nil {
		return // rejecting the text as a whole keeps the last good table: fine
	}
	if len(tb[""]) != 2 {
		t.Fatalf("no error, but the table has %d of the 2 routes: the text after the long line was dropped silently", len(tb[""]))
	}
}
