package route

// Demonstration for the C06 finding "rrPicker reads Route.total without synchronisation":
// run with  go test -race -run TestVerifRRPickerRace  (overlay into /repo/route).
import (
	"sync"
	"testing"
)

func TestVerifRRPickerRace(t *testing.T) {
	r := &Route{Host: "", Path: "/"}
	r.wTargets = []*Target{{Service: "a"}, {Service: "b"}}
	var wg sync.WaitGroup
	for g := 0; g < 4; g++ {
		wg.Add(1)
		go func() {
			defer wg.Done()
			for i := 0; i < 2000; i++ {
				rrPicker(r)
			}
		}()
	}
	wg.Wait()
}
