package route

// Demonstration for the C02 finding "a custom-backend answer of JSON null crashes the process": decoding `null`
// into *[]RouteDef leaves the pointer nil and NewTableCustom dereferences it (in a goroutine without recover).
import (
	"encoding/json"
	"testing"
)

func TestVerifCustomNullBody(t *testing.T) {
	var defs *[]RouteDef
	if err := json.Unmarshal([]byte("null"), &defs); err != nil {
		t.Fatal(err)
	}
	defer func() {
		if r := recover(); r != nil {
			t.Fatalf("NewTableCustom panicked on a null body: %v", r)
		}
	}()
	tb, err := NewTableCustom(defs)
	if err == nil || tb != nil {
		t.Fatalf("a null body must be rejected, got table %v err %v", tb, err)
	}
}
