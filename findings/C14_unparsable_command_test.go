package consul

// Demonstration for the C14 finding "a registration that cannot be expressed poisons the whole update":
// every command routecmd.build emits must be accepted by fabio's own route parser.
import (
	"bytes"
	"testing"

	"github.com/fabiolb/fabio/route"
	"github.com/hashicorp/consul/api"
)

func TestVerifEmittedCommandsParse(t *testing.T) {
	for _, tags := range [][]string{
		{"urlprefix-/x weight=abc"},
		{"urlprefix-/y", `say "hi"`},
		{"urlprefix-/z", `back\slash`},
		{"urlprefix-/r redirect=301,:foo"},
		{"urlprefix-/x["},
	} {
		r := routecmd{prefix: "urlprefix-", svc: &api.CatalogService{ServiceName: "svc", ServiceAddress: "1.2.3.4", ServicePort: 80, ServiceTags: tags}}
		for _, cmd := range r.build() {
			if _, err := route.Parse(bytes.NewBufferString(cmd)); err != nil {
				t.Errorf("tags %q: emitted %q which the route parser rejects: %v", tags, cmd, err)
			}
			if _, err := route.NewTable(bytes.NewBufferString(cmd)); err != nil {
				t.Errorf("tags %q: emitted %q which table construction rejects: %v", tags, cmd, err)
			}
		}
	}
}
