package route

// Demonstration for the C02/C04 finding "a route weight of Inf, a denormal weight, or weights whose sum overflows
// crash table construction or leave a route nobody can be picked from".
import (
	"bytes"
	"net/http"
	"testing"
)

func TestVerifExtremeWeights(t *testing.T) {
	for _, txt := range []string{
		"route add a / http://a/ weight Inf",
		"route add a / http://a/ weight 1e-320",
		"route add a / http://a/ weight 1e308\nroute add b / http://b/ weight 1e308",
		"route add a / http://a/\nroute weight a / weight Inf",
	} {
		func() {
			defer func() {
				if r := recover(); r != nil {
					t.Errorf("%q: panic: %v", txt, r)
				}
			}()
			tb, err := NewTable(bytes.NewBufferString(txt))
			if err != nil {
				return
			}
			req, _ := http.NewRequest("GET", "http://x/", nil)
			if tb.Lookup(req, "", rrPicker, prefixMatcher, NewGlobCache(10), false) == nil {
				t.Errorf("%q: no target", txt)
			}
		}()
	}
}
