package route

// Demonstration for the C06/C13 finding "the redirect URL was cached on the shared target":
// concurrent lookups of a $path redirect route with different paths; each must get its own Location.
// run with  go test -race -run TestVerifRedirectShared  (overlay into /repo/route).
import (
	"bytes"
	"fmt"
	"net/http"
	"net/url"
	"sync"
	"testing"
)

func TestVerifRedirectShared(t *testing.T) {
	tbl, err := NewTable(bytes.NewBufferString("route add svc / https://example.org$path opts \"redirect=301\""))
	if err != nil {
		t.Fatal(err)
	}
	var wg sync.WaitGroup
	var mu sync.Mutex
	bad := 0
	for g := 0; g < 4; g++ {
		wg.Add(1)
		go func(g int) {
			defer wg.Done()
			for i := 0; i < 2000; i++ {
				p := fmt.Sprintf("/g%d/%d", g, i)
				req := &http.Request{Host: "foo.com", URL: &url.URL{Path: p}, Header: http.Header{}}
				tg := tbl.Lookup(req, "", rrPicker, prefixMatcher, NewGlobCache(10), false)
				if tg == nil || tg.RedirectURL == nil || tg.RedirectURL.Path != p {
					mu.Lock()
					bad++
					mu.Unlock()
				}
			}
		}(g)
	}
	wg.Wait()
	if bad > 0 {
		t.Fatalf("%d lookups saw another request's redirect location", bad)
	}
}
