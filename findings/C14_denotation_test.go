package consul

// Demonstration for the C14 finding "a generated command can denote something that was never registered": the command
// text is assembled by concatenation, so a service name with blanks and a quote, a plain tag with a comma or a backslash,
// ... produce a command that fabio's parser ACCEPTS but reads back as a different service / prefix / destination / tag
// list. A registration that cannot be expressed has to be dropped.
import (
	"bytes"
	"testing"

	"github.com/fabiolb/fabio/route"
	"github.com/hashicorp/consul/api"
)

func TestVerifCommandsDenoteTheRegistration(t *testing.T) {
	cases := []struct {
		name string
		svc  api.CatalogService
	}{
		{"service name smuggles service, prefix and destination", api.CatalogService{ServiceName: `a b c tags "`, ServiceAddress: "1.1.1.1", ServicePort: 80, ServiceTags: []string{`urlprefix-x redirect=301,"`}}},
		{"plain tag with a comma becomes two tags", api.CatalogService{ServiceName: "svc", ServiceAddress: "1.1.1.1", ServicePort: 80, ServiceTags: []string{"urlprefix-/p", "a,b"}}},
		{"plain tag with a backslash is doubled", api.CatalogService{ServiceName: "svc", ServiceAddress: "1.1.1.1", ServicePort: 80, ServiceTags: []string{"urlprefix-/p", `a\b`}}},
		{"option value with a backslash is doubled", api.CatalogService{ServiceName: "svc", ServiceAddress: "1.1.1.1", ServicePort: 80, ServiceTags: []string{`urlprefix-/p strip=/a\b`}}},
	}
	for _, c := range cases {
		svc := c.svc
		for _, cmd := range (routecmd{svc: &svc, prefix: "urlprefix-"}).build() {
			defs, err := route.Parse(bytes.NewBufferString(cmd))
			if err != nil || len(defs) != 1 {
				t.Errorf("%s: emitted %q which does not parse to one definition", c.name, cmd)
				continue
			}
			d := defs[0]
			if d.Service != svc.ServiceName {
				t.Errorf("%s: %q routes for service %q, registered was %q", c.name, cmd, d.Service, svc.ServiceName)
			}
			var plain []string
			for _, tg := range svc.ServiceTags[1:] {
				plain = append(plain, tg)
			}
			if len(svc.ServiceTags) > 1 && (len(d.Tags) != len(plain) || d.Tags[0] != plain[0]) {
				t.Errorf("%s: %q carries tags %q, registered were %q", c.name, cmd, d.Tags, plain)
			}
			if v, ok := d.Opts["strip"]; ok && v != `/a\b` {
				t.Errorf("%s: %q carries strip=%q, registered was %q", c.name, cmd, v, `/a\b`)
			}
		}
	}
}
