package route

// Demonstrations for two C12 findings in AccessDeniedHTTP:
//  (1) a zone-scoped IPv6 peer (fe80::1%eth0) cannot be parsed by net.ParseIP, so it lies "in no block" and passes a
//      DENY list that contains its address;
//  (2) only the FIRST X-Forwarded-For header line was examined (Header.Get): an address on a second line was never
//      checked against the rules.
import (
	"net/http"
	"net/url"
	"testing"
)

func verifDenyTarget(t *testing.T, rule string) *Target {
	tg := &Target{URL: &url.URL{Scheme: "http", Host: "h:80"}, Opts: map[string]string{"deny": rule}}
	if err := tg.ProcessAccessRules(); err != nil {
		t.Fatal(err)
	}
	return tg
}

func TestVerifZoneScopedPeerAndDenyList(t *testing.T) {
	tg := verifDenyTarget(t, "ip:fe80::/10")
	r := &http.Request{RemoteAddr: "[fe80::1%eth0]:1234", Header: http.Header{}}
	if !tg.AccessDeniedHTTP(r) {
		t.Fatal("peer fe80::1%eth0 is inside the denied block fe80::/10 but was admitted")
	}
}

func TestVerifSecondForwardedForLine(t *testing.T) {
	tg := verifDenyTarget(t, "ip:10.0.0.0/8")
	r := &http.Request{RemoteAddr: "1.2.3.4:1234", Header: http.Header{"X-Forwarded-For": {"1.2.3.4", "10.1.1.1"}}}
	if !tg.AccessDeniedHTTP(r) {
		t.Fatal("10.1.1.1 is listed in X-Forwarded-For (second header line) and inside the denied block, but the request was admitted")
	}
}
