package route

// Demonstration for the C13 finding "a redirect= option that overflows int is kept as the redirect status":
// strconv.Atoi returns (MaxInt64, ErrRange); addTarget only logs the error and keeps the value.
import (
	"bytes"
	"testing"
)

func TestVerifRedirectCodeAlways3xxOrNone(t *testing.T) {
	tb, err := NewTable(bytes.NewBufferString(`route add svc / http://a/ opts "redirect=99999999999999999999"`))
	if err != nil {
		t.Fatal(err)
	}
	c := tb[""][0].Targets[0].RedirectCode
	if c != 0 && (c < 300 || c > 399) {
		t.Fatalf("redirect status %d", c)
	}
}
