package cert

// Demonstration for the C11 finding "the HTTP certificate source takes an error page for its file list": loadURL never
// looks at the status code, so a 500/404 answer is read as a list without a single .pem name, loadCertificates makes
// the EMPTY set out of it without an error, and the watcher publishes that: the working set is gone.
import (
	"net/http"
	"net/http/httptest"
	"testing"
)

func TestVerifHTTPSourceErrorPage(t *testing.T) {
	srv := httptest.NewServer(http.HandlerFunc(func(w http.ResponseWriter, r *http.Request) {
		http.Error(w, "internal server error", http.StatusInternalServerError)
	}))
	defer srv.Close()
	blocks, err := loadURL(srv.URL + "/list")
	if err == nil {
		t.Fatalf("an HTTP 500 answer was accepted as certificate material: %d entries", len(blocks))
	}
}
