package route

// Demonstration for the C13 finding "a self-redirect is returned when it is found on the last host tried".
import (
	"bytes"
	"net/http"
	"net/url"
	"testing"
)

func TestVerifSelfRedirectLastHost(t *testing.T) {
	tbl, err := NewTable(bytes.NewBufferString("route add svc / https://foo.com$path opts \"redirect=301\""))
	if err != nil {
		t.Fatal(err)
	}
	req := &http.Request{Host: "foo.com", URL: &url.URL{Path: "/x"}, Header: http.Header{"X-Forwarded-Proto": {"https"}}}
	tg := tbl.Lookup(req, "", rrPicker, prefixMatcher, NewGlobCache(10), false)
	if tg != nil && tg.RedirectCode != 0 && tg.RedirectURL.String() == "https://foo.com/x" {
		t.Fatalf("request for https://foo.com/x is redirected to itself: %s", tg.RedirectURL)
	}
}
