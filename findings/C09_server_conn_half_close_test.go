package tcp

// Demonstration for the C09 finding "connections accepted by the TCP server cannot be half-closed": Server.Serve wraps
// every client connection in *conn, which had no CloseWrite, so ending the upstream->client direction CLOSED the client
// connection altogether: when the upstream finishes first, what the client sends afterwards never reaches it.
import (
	"io"
	"net"
	"net/url"
	"testing"
	"time"

	"github.com/fabiolb/fabio/route"
)

func TestVerifUpstreamFinishesFirst(t *testing.T) {
	up, err := net.Listen("tcp", "127.0.0.1:0")
	if err != nil {
		t.Fatal(err)
	}
	defer up.Close()
	got := make(chan string, 1)
	go func() {
		c, err := up.Accept()
		if err != nil {
			return
		}
		defer c.Close()
		c.Write([]byte("BYE"))
		c.(*net.TCPConn).CloseWrite() // the upstream has said all it has to say, and goes on listening
		c.SetReadDeadline(time.Now().Add(2 * time.Second))
		b, _ := io.ReadAll(c)
		got <- string(b)
	}()
	l, err := net.Listen("tcp", "127.0.0.1:0")
	if err != nil {
		t.Fatal(err)
	}
	_, port, _ := net.SplitHostPort(l.Addr().String())
	srv := &Server{Handler: &Proxy{DialTimeout: time.Second, Lookup: func(h string) *route.Target {
		if h != ":"+port {
			return nil
		}
		return &route.Target{URL: &url.URL{Host: up.Addr().String()}}
	}}}
	go srv.Serve(l)
	defer srv.Close()
	c, err := net.Dial("tcp", l.Addr().String())
	if err != nil {
		t.Fatal(err)
	}
	defer c.Close()
	c.SetReadDeadline(time.Now().Add(2 * time.Second))
	if b, _ := io.ReadAll(c); string(b) != "BYE" {
		t.Fatalf("client received %q, want BYE", b)
	}
	// the upstream->client direction has ended; the other one is still open
	c.Write([]byte("LATE"))
	c.(*net.TCPConn).CloseWrite()
	if s := <-got; s != "LATE" {
		t.Fatalf("the upstream received %q after it had finished sending, want LATE", s)
	}
}
