package proxy

// Demonstrations for two C08 findings:
//  (1) localPort cut the Host header at its FIRST colon: for an IPv6 literal ([::1]:8080) X-Forwarded-Port became
//      ":1]:8080" instead of the port the client asked for;
//  (2) ServeHTTP sends 'Upgrade: Websocket' (capital W) down the websocket tunnel, which bypasses the reverse proxy's
//      X-Forwarded-For handling, but addHeaders appended the peer only for the lower-case spelling: the upstream did not
//      learn the real peer address.
import (
	"net/http"
	"testing"

	"github.com/fabiolb/fabio/config"
)

func TestVerifForwardedPortIPv6Host(t *testing.T) {
	r := &http.Request{Host: "[::1]:8080", RemoteAddr: "1.2.3.4:5555", Header: http.Header{}}
	if got := localPort(r); got != "8080" {
		t.Fatalf("Host [::1]:8080: X-Forwarded-Port would be %q, want 8080", got)
	}
}

func TestVerifWebsocketCapitalForwardedFor(t *testing.T) {
	for _, up := range []string{"websocket", "Websocket"} {
		r := &http.Request{Host: "x", RemoteAddr: "1.2.3.4:5555", Header: http.Header{"Upgrade": {up}, "X-Forwarded-For": {"9.9.9.9"}}}
		if err := addHeaders(r, config.Proxy{}, ""); err != nil {
			t.Fatal(err)
		}
		if got := r.Header.Get("X-Forwarded-For"); got != "9.9.9.9, 1.2.3.4" {
			t.Errorf("Upgrade: %s: X-Forwarded-For is %q, the peer 1.2.3.4 is not its last element", up, got)
		}
	}
}
