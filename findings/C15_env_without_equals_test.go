package config

// Demonstration for the C15 finding "an environment entry without '=' makes configuration loading panic".
import "testing"

func TestVerifEnvWithoutEquals(t *testing.T) {
	defer func() {
		if r := recover(); r != nil {
			t.Fatalf("Load panicked: %v", r)
		}
	}()
	Load([]string{"fabio"}, []string{"NOEQUALSIGN"})
}
