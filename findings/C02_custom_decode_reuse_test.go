package custom

// Demonstration for the C02 finding "the custom backend decodes every poll into the memory of the table it published
// from the previous poll": the Opts map (and Tags array) of a published target change in place while the old table is
// still the active one, and a definition without opts inherits the opts of the previous poll's definition.
import (
	"net/http"
	"net/http/httptest"
	"strings"
	"sync/atomic"
	"testing"
	"time"

	"github.com/fabiolb/fabio/config"
	"github.com/fabiolb/fabio/route"
)

func TestVerifCustomDecodeReuse(t *testing.T) {
	var polls int32
	srv := httptest.NewServer(http.HandlerFunc(func(w http.ResponseWriter, r *http.Request) {
		if atomic.AddInt32(&polls, 1) == 1 {
			w.Write([]byte(`[{"cmd":"route add","service":"a","src":"/a","dst":"http://1.1.1.1:80/","opts":{"strip":"/a"}}]`))
			return
		}
		w.Write([]byte(`[{"cmd":"route add","service":"b","src":"/b","dst":"http://2.2.2.2:80/","opts":{"host":"dst"}}]`))
	}))
	defer srv.Close()
	cfg := &config.Custom{Scheme: "http", Host: strings.TrimPrefix(srv.URL, "http://"), Path: "x", PollInterval: 50 * time.Millisecond, Timeout: time.Second}
	ch := make(chan string, 10)
	go customRoutes(cfg, ch)
	if s := <-ch; s != "OK" {
		t.Fatal(s)
	}
	first := route.GetTable()
	tg := first[""][0].Targets[0]
	if len(tg.Opts) != 1 || tg.Opts["strip"] != "/a" {
		t.Fatalf("unexpected first table opts %v", tg.Opts)
	}
	if s := <-ch; s != "OK" {
		t.Fatal(s)
	}
	// the first table was published: nothing reachable from it may have changed
	if len(tg.Opts) != 1 || tg.Opts["strip"] != "/a" {
		t.Errorf("published target changed in place: opts now %v", tg.Opts)
	}
	second := route.GetTable()
	if o := second[""][0].Targets[0].Opts; len(o) != 1 || o["host"] != "dst" {
		t.Errorf("second table inherits options of the first poll: %v", o)
	}
}
