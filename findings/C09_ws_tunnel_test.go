package proxy

// Demonstrations for two C09 findings on the websocket path:
//  (1) bytes the client sends together with the upgrade request sit in the HTTP server's buffered reader; the handler
//      dropped that reader after Hijack and tunnelled from the bare connection, so those bytes never reached the upstream;
//  (2) the handler returned (closing both connections) as soon as ONE direction had finished, so a client that
//      half-closes after sending never received the reply.
import (
	"bufio"
	"io"
	"net"
	"net/http"
	"net/http/httptest"
	"strings"
	"testing"
	"time"
)

// upstream: answers the upgrade with 101, then hands the connection to fn
func verifWSUpstream(t *testing.T, fn func(c net.Conn, br *bufio.Reader)) net.Listener {
	l, err := net.Listen("tcp", "127.0.0.1:0")
	if err != nil {
		t.Fatal(err)
	}
	go func() {
		for {
			c, err := l.Accept()
			if err != nil {
				return
			}
			go func() {
				defer c.Close()
				br := bufio.NewReader(c)
				if _, err := http.ReadRequest(br); err != nil {
					return
				}
				io.WriteString(c, "HTTP/1.1 101 Switching Protocols\r\nUpgrade: websocket\r\nConnection: Upgrade\r\n\r\n")
				fn(c, br)
			}()
		}
	}()
	return l
}

func verifWSDial(t *testing.T, upstream net.Listener, extra string) (net.Conn, *bufio.Reader) {
	srv := httptest.NewServer(newWSHandler(upstream.Addr().String(), net.Dial, nil))
	t.Cleanup(srv.Close)
	c, err := net.Dial("tcp", strings.TrimPrefix(srv.URL, "http://"))
	if err != nil {
		t.Fatal(err)
	}
	t.Cleanup(func() { c.Close() })
	// the upgrade request and whatever follows it go out in ONE segment
	io.WriteString(c, "GET /ws HTTP/1.1\r\nHost: x\r\nUpgrade: websocket\r\nConnection: Upgrade\r\n\r\n"+extra)
	br := bufio.NewReader(c)
	c.SetReadDeadline(time.Now().Add(3 * time.Second))
	for {
		line, err := br.ReadString('\n')
		if err != nil {
			t.Fatalf("no handshake answer: %v", err)
		}
		if line == "\r\n" {
			break
		}
	}
	return c, br
}

func TestVerifWSBytesSentWithUpgrade(t *testing.T) {
	got := make(chan string, 1)
	up := verifWSUpstream(t, func(c net.Conn, br *bufio.Reader) {
		buf := make([]byte, 5)
		c.SetReadDeadline(time.Now().Add(2 * time.Second))
		n, _ := io.ReadFull(br, buf)
		got <- string(buf[:n])
	})
	defer up.Close()
	verifWSDial(t, up, "early")
	if s := <-got; s != "early" {
		t.Fatalf("bytes sent together with the upgrade request did not reach the upstream: got %q", s)
	}
}

func TestVerifWSHalfClose(t *testing.T) {
	up := verifWSUpstream(t, func(c net.Conn, br *bufio.Reader) {
		// reply only after the client has finished sending
		data, _ := io.ReadAll(br)
		time.Sleep(100 * time.Millisecond)
		io.WriteString(c, "reply to "+string(data))
	})
	defer up.Close()
	c, br := verifWSDial(t, up, "")
	io.WriteString(c, "ping")
	c.(*net.TCPConn).CloseWrite()
	c.SetReadDeadline(time.Now().Add(3 * time.Second))
	data, _ := io.ReadAll(br)
	if string(data) != "reply to ping" {
		t.Fatalf("a client that half-closes after sending got %q instead of the reply", data)
	}
}
