package gzip

// Demonstration for the C17 finding "an informational response takes the compression decision": the compressing writer
// decided at the FIRST WriteHeader call. A reverse proxy forwards an upstream '103 Early Hints' as WriteHeader(103)
// with the hint's headers and then clears the header map, so the decision was taken on the wrong headers and the
// Content-Encoding label it set was wiped: the final body went out gzip-compressed WITHOUT a label (or a compressible
// response went out uncompressed).
import (
	"bytes"
	stdgzip "compress/gzip"
	"io"
	"net/http"
	"net/http/httptest"
	"regexp"
	"testing"
)

func TestVerifEarlyHintsThenCompressibleBody(t *testing.T) {
	body := bytes.Repeat([]byte("hello fabio "), 100)
	h := http.HandlerFunc(func(w http.ResponseWriter, r *http.Request) {
		// what httputil.ReverseProxy does with an upstream 103 response
		w.Header().Set("Link", "</style.css>; rel=preload")
		w.WriteHeader(http.StatusEarlyHints)
		for k := range w.Header() {
			delete(w.Header(), k)
		}
		w.Header().Set("Content-Type", "text/plain")
		w.WriteHeader(http.StatusOK)
		w.Write(body)
	})
	srv := httptest.NewServer(NewGzipHandler(h, regexp.MustCompile(`.*`)))
	defer srv.Close()
	req, _ := http.NewRequest("GET", srv.URL, nil)
	req.Header.Set("Accept-Encoding", "gzip")
	resp, err := (&http.Client{Transport: &http.Transport{DisableCompression: true}}).Do(req)
	if err != nil {
		t.Fatal(err)
	}
	defer resp.Body.Close()
	raw, _ := io.ReadAll(resp.Body)
	got := raw
	if resp.Header.Get("Content-Encoding") == "gzip" {
		zr, err := stdgzip.NewReader(bytes.NewReader(raw))
		if err != nil {
			t.Fatalf("labelled gzip but not gzip data: %v", err)
		}
		got, _ = io.ReadAll(zr)
	}
	if !bytes.Equal(got, body) {
		t.Fatalf("Content-Encoding %q: the client does not get the bytes the handler produced (got %d bytes starting %q)", resp.Header.Get("Content-Encoding"), len(got), got[:8])
	}
}
