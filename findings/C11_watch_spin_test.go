package cert

// Demonstration for the C11 finding "a source that keeps delivering unusable certificate material makes the
// watcher spin": loadFn succeeds, loadCertificates fails, and the loop continues without waiting.
import (
	"crypto/tls"
	"sync/atomic"
	"testing"
	"time"
)

func TestVerifWatchDoesNotSpinOnBadMaterial(t *testing.T) {
	var calls int64
	loadFn := func(string) (map[string][]byte, error) {
		atomic.AddInt64(&calls, 1)
		return map[string][]byte{"bad-cert.pem": []byte("not a certificate")}, nil
	}
	ch := make(chan []tls.Certificate, 1)
	go watch(ch, time.Second, "x", loadFn)
	time.Sleep(300 * time.Millisecond)
	if n := atomic.LoadInt64(&calls); n > 2 {
		t.Fatalf("source polled %d times in 300ms with a 1s refresh interval", n)
	}
}
