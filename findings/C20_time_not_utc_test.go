package logger

// Demonstration for the C20 finding "calendar fields are printed in the time stamp's own zone but labelled UTC": the
// $time_common and $time_rfc3339* fields read Year/Month/Day/Hour/... off Event.End as it is (the proxy passes
// time.Now(), local time) and append a literal " +0000" / "Z".
import (
	"bytes"
	"net/http"
	"net/url"
	"testing"
	"time"
)

func TestVerifTimeFieldsAreUTC(t *testing.T) {
	end := time.Date(2021, 3, 4, 23, 6, 7, 123456789, time.FixedZone("X", 5*3600)) // 18:06:07 UTC
	e := &Event{Start: end.Add(-time.Second), End: end, Request: &http.Request{URL: &url.URL{}}, Response: &http.Response{}}
	for format, want := range map[string]string{
		"$time_rfc3339":    "2021-03-04T18:06:07Z\n",
		"$time_rfc3339_ms": "2021-03-04T18:06:07.123Z\n",
		"$time_rfc3339_us": "2021-03-04T18:06:07.123456Z\n",
		"$time_rfc3339_ns": "2021-03-04T18:06:07.123456789Z\n",
		"$time_common":     "04/Mar/2021:18:06:07 +0000\n",
	} {
		var b bytes.Buffer
		l, err := New(&b, format)
		if err != nil {
			t.Fatal(err)
		}
		l.Log(e)
		if b.String() != want {
			t.Errorf("%s: got %q want %q (the standard library: %q)", format, b.String(), want, end.UTC().Format(time.RFC3339Nano))
		}
	}
}
