package consul

// Demonstration for the C01 finding "two instances can share one key": the passing instances of a service were keyed by
// Node + "." + ServiceID, so node "a.b" with service id "c" (healthy) and node "a" with service id "b.c" (unhealthy)
// are the same key - the unhealthy instance got a route. Dotted node names (FQDNs) make this reachable.
import (
	"encoding/json"
	"net/http"
	"net/http/httptest"
	"strings"
	"testing"

	"github.com/fabiolb/fabio/config"
	"github.com/hashicorp/consul/api"
)

func TestVerifInstanceKeyCollision(t *testing.T) {
	catalog := []*api.CatalogService{
		{Node: "a.b", ServiceID: "c", ServiceName: "web", ServiceAddress: "1.1.1.1", ServicePort: 80, ServiceTags: []string{"urlprefix-/x"}},
		{Node: "a", ServiceID: "b.c", ServiceName: "web", ServiceAddress: "2.2.2.2", ServicePort: 80, ServiceTags: []string{"urlprefix-/x"}},
	}
	srv := httptest.NewServer(http.HandlerFunc(func(w http.ResponseWriter, r *http.Request) {
		json.NewEncoder(w).Encode(catalog)
	}))
	defer srv.Close()
	client, err := api.NewClient(&api.Config{Address: strings.TrimPrefix(srv.URL, "http://")})
	if err != nil {
		t.Fatal(err)
	}
	w := &ServiceMonitor{client: client, config: &config.Consul{TagPrefix: "urlprefix-"}}
	// only the instance on node a.b passed its health check
	cfg := w.makeConfig([]*api.HealthCheck{{Node: "a.b", ServiceID: "c", ServiceName: "web", CheckID: "service:c", Status: "passing"}})
	if !strings.Contains(cfg, "1.1.1.1") {
		t.Fatalf("the healthy instance has no route: %q", cfg)
	}
	if strings.Contains(cfg, "2.2.2.2") {
		t.Fatalf("the instance on node a (service id b.c) never passed a health check but got a route: %q", cfg)
	}
}
