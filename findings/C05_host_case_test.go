package route

// Demonstration for the C05 finding "route del / route weight do not treat the host case-insensitively":
// 'route add' stores the host lower-cased, the other two commands looked it up as written.
import (
	"bytes"
	"testing"
)

func TestVerifHostCaseInsensitiveCommands(t *testing.T) {
	tb, err := NewTable(bytes.NewBufferString("route add svc Foo.com/ http://a/\nroute del svc Foo.com/"))
	if err != nil {
		t.Fatal(err)
	}
	if len(tb) != 0 {
		t.Errorf("route del svc Foo.com/ deleted nothing: %v", tb)
	}
	if _, err := NewTable(bytes.NewBufferString("route add svc Foo.com/ http://a/\nroute weight svc Foo.com/ weight 0.5")); err != nil {
		t.Errorf("route weight svc Foo.com/: %v", err)
	}
}
