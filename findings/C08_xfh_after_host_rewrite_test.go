package proxy

// Demonstration for the C08 finding "X-Forwarded-Host carried the rewritten host, not the host the client asked for,
// when the route sets host=...".
import (
	"net/http"
	"net/http/httptest"
	"net/url"
	"testing"

	"github.com/fabiolb/fabio/config"
	"github.com/fabiolb/fabio/route"
)

func TestVerifXFHAfterHostRewrite(t *testing.T) {
	var gotXFH, gotHost string
	server := httptest.NewServer(http.HandlerFunc(func(w http.ResponseWriter, r *http.Request) {
		gotXFH, gotHost = r.Header.Get("X-Forwarded-Host"), r.Host
	}))
	defer server.Close()
	u, _ := url.Parse(server.URL)
	proxy := httptest.NewServer(&HTTPProxy{
		Config:    config.Proxy{},
		Transport: http.DefaultTransport,
		Lookup: func(r *http.Request) *route.Target {
			return &route.Target{URL: u, Host: "backend.internal"}
		},
	})
	defer proxy.Close()
	req, _ := http.NewRequest("GET", proxy.URL+"/", nil)
	req.Host = "www.example.com"
	resp, err := http.DefaultClient.Do(req)
	if err != nil {
		t.Fatal(err)
	}
	resp.Body.Close()
	if gotHost != "backend.internal" {
		t.Fatalf("Host not rewritten: %q", gotHost)
	}
	if gotXFH != "www.example.com" {
		t.Fatalf("X-Forwarded-Host = %q, want the host the client asked for (www.example.com)", gotXFH)
	}
}
