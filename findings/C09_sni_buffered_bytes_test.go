package tcp

// Demonstration for the C09 finding "bytes sent together with the ClientHello vanish on tcp+sni listeners": the
// hello is read through a bufio.Reader, which may buffer more than the hello; the tunnel then copies from the raw
// connection, so whatever the buffered reader had already consumed is never forwarded.
import (
	"bytes"
	"crypto/tls"
	"io"
	"net"
	"testing"
	"time"

	"github.com/fabiolb/fabio/route"
	"net/url"
)

type helloRecorder struct {
	net.Conn
	buf bytes.Buffer
}

func (h *helloRecorder) Write(p []byte) (int, error) { h.buf.Write(p); return 0, io.ErrClosedPipe }
func (h *helloRecorder) Read(p []byte) (int, error)  { return 0, io.EOF }

func TestVerifSNIForwardsBytesSentWithHello(t *testing.T) {
	// record a real ClientHello
	c1, c2 := net.Pipe()
	defer c1.Close()
	defer c2.Close()
	rec := &helloRecorder{Conn: c1}
	tls.Client(rec, &tls.Config{ServerName: "example.com", InsecureSkipVerify: true}).Handshake()
	hello := rec.buf.Bytes()
	if len(hello) < 50 {
		t.Fatalf("no hello recorded (%d bytes)", len(hello))
	}
	extra := []byte("0123456789ABCDEFGHIJKL")

	// upstream collects everything it receives
	up, err := net.Listen("tcp", "127.0.0.1:0")
	if err != nil {
		t.Fatal(err)
	}
	defer up.Close()
	got := make(chan []byte, 1)
	go func() {
		c, err := up.Accept()
		if err != nil {
			return
		}
		defer c.Close()
		c.SetReadDeadline(time.Now().Add(2 * time.Second))
		b, _ := io.ReadAll(c)
		got <- b
	}()

	p := &SNIProxy{DialTimeout: time.Second, Lookup: func(host string) *route.Target {
		return &route.Target{URL: &url.URL{Host: up.Addr().String()}}
	}}
	l, err := net.Listen("tcp", "127.0.0.1:0")
	if err != nil {
		t.Fatal(err)
	}
	defer l.Close()
	go func() {
		c, err := l.Accept()
		if err == nil {
			p.ServeTCP(c)
		}
	}()
	c, err := net.Dial("tcp", l.Addr().String())
	if err != nil {
		t.Fatal(err)
	}
	// one segment: the hello and 22 more bytes
	c.Write(append(append([]byte{}, hello...), extra...))
	time.Sleep(300 * time.Millisecond)
	c.Close()
	select {
	case b := <-got:
		if !bytes.Equal(b, append(append([]byte{}, hello...), extra...)) {
			t.Fatalf("upstream received %d bytes, client sent %d (hello %d + %d)", len(b), len(hello)+len(extra), len(hello), len(extra))
		}
	case <-time.After(3 * time.Second):
		t.Fatal("upstream received nothing")
	}
}
