package route

// Demonstration for the C13 finding "percent-encoding lost when $path is glued to the host in the redirect target".
import (
	"net/url"
	"testing"
)

func TestVerifRedirectRawPathGlued(t *testing.T) {
	u, _ := url.Parse("https://$host$path")
	tg := &Target{URL: u, RedirectCode: 301}
	req, _ := url.Parse("http://foo.com/a%2Fb?x=1")
	req.Host = "foo.com"
	tg.BuildRedirectURL(req)
	if got, want := tg.RedirectURL.String(), "https://foo.com/a%2Fb?x=1"; got != want {
		t.Fatalf("got %s want %s", got, want)
	}
}
