package config

// Demonstration for the C15 finding "glob.cache.size=0 is accepted although every request with host globbing then panics".
import "testing"

func TestVerifGlobCacheSizeZero(t *testing.T) {
	cfg, err := Load([]string{"fabio", "-glob.cache.size=0"}, nil)
	if err == nil {
		t.Fatalf("configuration with glob.cache.size=%d was accepted", cfg.GlobCacheSize)
	}
}
