package consul

// Demonstration for the C14 finding "a registration whose name contains a line break yields several route commands":
// the generated text passes the parser (it is several valid lines) and deletes another service's routes.
import (
	"bytes"
	"strings"
	"testing"

	"github.com/fabiolb/fabio/route"
	"github.com/hashicorp/consul/api"
)

func TestVerifOneRegistrationOneCommand(t *testing.T) {
	r := routecmd{prefix: "urlprefix-", svc: &api.CatalogService{
		ServiceName: "x /p http://h/\nroute del good\n#", ServiceAddress: "1.2.3.4", ServicePort: 80,
		ServiceTags: []string{"urlprefix-/x"}}}
	for _, cmd := range r.build() {
		defs, err := route.Parse(bytes.NewBufferString(cmd))
		if err != nil {
			continue
		}
		if len(defs) != 1 || !strings.HasPrefix(cmd, "route add ") || defs[0].Cmd != route.RouteAddCmd {
			t.Errorf("one urlprefix tag produced %d commands: %q", len(defs), cmd)
		}
	}
}
