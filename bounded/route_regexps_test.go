package route

// bounded: props C02
// bounded: pkg route
// bounded: run TestBoundedParserExpressions
// bounded: bound the 11 compiled expressions of the route parser (concrete check of the start-up assumption parserReady: non-nil, capture-group counts 9/5/2/1/5/3)
//
// The contracts of the parser assume the group counts of its package-level expressions; this checks the real values.

import (
	"fmt"
	"regexp"
	"testing"
)

func TestBoundedParserExpressions(t *testing.T) {
	n := 0
	chk := func(name string, re *regexp.Regexp, want int) {
		n++
		if re == nil {
			fmt.Printf("BOUNDED-FAIL %s :: expression is nil\n", name)
			return
		}
		if want >= 0 && re.NumSubexp() != want {
			fmt.Printf("BOUNDED-FAIL %s :: %d capture groups, contracts assume %d\n", name, re.NumSubexp(), want)
		}
	}
	chk("reRouteAdd", reRouteAdd, -1)
	chk("reRouteDel", reRouteDel, -1)
	chk("reRouteWeight", reRouteWeight, -1)
	chk("reComment", reComment, -1)
	chk("reBlankLine", reBlankLine, -1)
	chk("reAdd", reAdd, 9)
	chk("reDel", reDel, 5)
	chk("reDelSvcTags", reDelSvcTags, 2)
	chk("reDelTags", reDelTags, 1)
	chk("reWeightSvc", reWeightSvc, 5)
	chk("reWeightSrc", reWeightSrc, 3)
	fmt.Printf("BOUNDED-CASES %d\n", n)
}
