package route

// bounded: props C02 C04
// bounded: pkg route
// bounded: run TestBoundedWeightsExtreme
// bounded: bound weights drawn from 18 special float64 values (0, negatives, NaN, +-Inf, denormals, 1e-5..1e308, MaxFloat64), 1..3 targets per route (quick: 1..2) through 'route add', plus one 'route weight' command per value, via NewTable (text) and NewTableCustom (structured); after construction one lookup with each picker
//
// Stand-in for the place where the deductive check treats float64 as real numbers: it runs the REAL table
// construction of the working tree on extreme weights. Labelled bounded; never counted as proof.

import (
	"bytes"
	"fmt"
	"math"
	"net/http"
	"os"
	"strconv"
	"strings"
	"testing"
)

func TestBoundedWeightsExtreme(t *testing.T) {
	vals := []float64{0, -1, math.NaN(), math.Inf(1), math.Inf(-1), 5e-324, 1e-320, 1e-300, 1e-5, 0.2, 0.5, 1, 2, 100, 1e9, 1e300, 1e308, math.MaxFloat64}
	maxLen := 2
	if os.Getenv("VERIF_TIER") == "thorough" {
		maxLen = 3
	}
	cases := 0
	check := func(desc string, build func() (Table, error)) {
		cases++
		func() {
			defer func() {
				if r := recover(); r != nil {
					fmt.Printf("BOUNDED-FAIL %s :: panic: %v\n", desc, r)
				}
			}()
			tb, err := build()
			if err != nil {
				return // rejected as a whole: allowed, nothing is installed
			}
			for _, routes := range tb {
				for _, r := range routes {
					sum := 0.0
					for _, tg := range r.Targets {
						if !(tg.Weight >= 0) || math.IsInf(tg.Weight, 0) {
							fmt.Printf("BOUNDED-FAIL %s :: effective weight %v\n", desc, tg.Weight)
							return
						}
						sum += tg.Weight
					}
					if len(r.Targets) > 0 && math.Abs(sum-1) > 1e-9 {
						fmt.Printf("BOUNDED-FAIL %s :: effective weights sum to %v\n", desc, sum)
						return
					}
					if len(r.Targets) > 0 && len(r.wTargets) == 0 {
						fmt.Printf("BOUNDED-FAIL %s :: empty ring for %d targets\n", desc, len(r.Targets))
						return
					}
					for _, w := range r.wTargets {
						if w == nil || !(w.Weight > 0) {
							fmt.Printf("BOUNDED-FAIL %s :: ring holds a nil or zero-weight target\n", desc)
							return
						}
					}
				}
			}
			req, _ := http.NewRequest("GET", "http://x/", nil)
			for _, p := range []picker{rrPicker, rndPicker} {
				if tg := tb.Lookup(req, "", p, prefixMatcher, NewGlobCache(10), false); tg == nil {
					fmt.Printf("BOUNDED-FAIL %s :: lookup found no target\n", desc)
					return
				}
			}
		}()
	}
	fstr := func(f float64) string { return strconv.FormatFloat(f, 'g', -1, 64) }
	var rec func(prefix []float64)
	rec = func(prefix []float64) {
		if len(prefix) > 0 {
			var lines []string
			var defs []RouteDef
			var ws []string
			for i, w := range prefix {
				lines = append(lines, fmt.Sprintf("route add s%d / http://h%d/ weight %s", i, i, fstr(w)))
				defs = append(defs, RouteDef{Cmd: RouteAddCmd, Service: fmt.Sprintf("s%d", i), Src: "/", Dst: fmt.Sprintf("http://h%d/", i), Weight: w})
				ws = append(ws, fstr(w))
			}
			desc := "weights=[" + strings.Join(ws, ",") + "]"
			txt := strings.Join(lines, "\n")
			check("text "+desc, func() (Table, error) { return NewTable(bytes.NewBufferString(txt)) })
			check("custom "+desc, func() (Table, error) { d := defs; return NewTableCustom(&d) })
			if len(prefix) == 2 {
				for _, w := range vals {
					txt2 := fmt.Sprintf("route add s0 / http://h0/ weight %s\nroute add s1 / http://h1/\nroute weight s1 / weight %s", fstr(prefix[0]), fstr(w))
					check("text "+desc+" then 'route weight s1' "+fstr(w), func() (Table, error) { return NewTable(bytes.NewBufferString(txt2)) })
				}
			}
		}
		if len(prefix) == maxLen {
			return
		}
		for _, w := range vals {
			rec(append(append([]float64{}, prefix...), w))
		}
	}
	rec(nil)
	fmt.Printf("BOUNDED-CASES %d\n", cases)
}
